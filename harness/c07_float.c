/* C07 - float codec: FULL mode bit-exact, lossy modes within the published
 * error, automatic precision within the requested error.
 *
 * case layout:
 *   sel:1      bits 0-1 precision (FULL/HIGH/MEDIUM/LOW), bits 2-3 mode
 *              (INDEPENDENT/COMMON_EXPONENT/DELTA_EXPONENT/COMMON), bits 4-6 >= 5 ->
 *              varintFloatEncodeAuto, bit 7 background fill of the output
 *   [req]      only for auto: class:1 (+ args) -> requested error in (0,1),
 *              either at/next to one of {2^-52,1e-10,2^-23,5e-4,2^-10,0.03,
 *              2^-4} or log-uniform 2^-(k+1)*(1+f), k=0..63
 *   shape:1    bits 0-2: explicit | one binade | spread<=255 | spread>=256 |
 *              specials interleaved | free mix; bit 3: sprinkle specials
 *              (bulk); bits 4-5: exponent window 256 / 4 binades (explicit);
 *              bits 6-7 != 0: no deliberate carry patterns
 *   explicit:  elements until the case is exhausted (1..64)
 *   bulk:      len:1(+2) seed:4 shape-args, expanded with vf_xs; then up to 8
 *              patches { index:2 element }
 *   element:   d:1 = sign:1 exp_class:4 mant_class:3, then the arguments the
 *              two classes need (0..2 bytes for the exponent, 0..7 for the
 *              mantissa); the all-zero element is +1.0
 *
 * added later (selector values that used to be duplicates, so that older case
 * files keep their meaning):
 *   narrow elements: mantissa class 6 (7 raw bytes = 56 bits): the top nibble,
 *              formerly ignored, != 0 selects "exactly representable with a
 *              k-bit significand" (k = KTAB[nibble]: 3,4,5,8,9,10,11,12,21,..,
 *              25,32,52; leading one included, rest of the fraction zero); bit
 *              0 of the raw value forces the lowest kept bit to 1.  In bulk
 *              expansions only when (len byte >> 6) & 1 (resp. the quotient of
 *              the 16-bit length) says so.
 *   narrow arrays: shape byte & 7 == 7 (formerly a second "explicit"): bits
 *              3-6 = k index, bit 7 = all-but-one; then m:1 (bits 0-1 exponent
 *              window keep / half range / float range / around one, bits 2-3
 *              lowest-kept-bit policy: half of the elements / all / as drawn /
 *              exactly one), then an ordinary shape byte + array; afterwards
 *              every normal element (but one) is cut to k significant bits.
 *   requests:  near-class index 7 (formerly = index 0) and log-uniform k byte
 *              128..191 (formerly = k % 64): requested error placed relative
 *              to 2^-k, k = widest significand of the decoded array (or an
 *              explicit table entry); falls back to the old meaning when the
 *              array is not narrow.
 *
 * oracle (DESIGN section 3, C07): decoder's byte count == encoder's; FULL:
 * every 8-byte pattern identical; lossy: specials (zero, subnormal, inf, NaN)
 * identical, normals |d-x| <= 2^-m |x| evaluated exactly in x87 long double,
 * m taken from the published varintFloatPrecisionMaxRelativeError(); the one
 * documented escape: a value whose m-bit rounding is 2^1024 may come back as
 * the infinity of its sign.  Auto: the guarantee of the reported precision,
 * then the requested error as the bound.
 *
 * sites: float.full.bits, float.lossy.special, float.lossy.carry (element
 * whose rounding carries into the next binade), float.lossy.error (any other
 * normal element), float.auto.error (within the selected precision's bound
 * but not within the request), float.length. */
#include "vf.h"

#include "varintFloat.h"

#include <float.h>
#include <math.h>

_Static_assert(sizeof(double) == 8, "IEEE-754 binary64 expected");
_Static_assert(LDBL_MANT_DIG >= 64, "x87 extended precision expected: the "
                                    "oracle relies on exact differences");

const char *vf_prop_id = "C07";
const size_t vf_case_maxlen = 160;

static const char *const PN[4] = {"FULL", "HIGH", "MEDIUM", "LOW"};
static const char *const MN[3] = {"INDEPENDENT", "COMMON", "DELTA"};
static const unsigned MB[3] = {4, 10, 23}; /* documented mantissa widths */

#define FRAC_MASK 0xFFFFFFFFFFFFFULL
#define FRAC_ONE (1ULL << 52)

static inline double bits2d(uint64_t u) {
    double d;
    memcpy(&d, &u, 8);
    return d;
}
static inline unsigned expf_of(uint64_t u) {
    return (unsigned)((u >> 52) & 0x7FF);
}
static inline uint64_t frac_of(uint64_t u) {
    return u & FRAC_MASK;
}
static inline int is_special_bits(uint64_t u) {
    unsigned e = expf_of(u);
    return e == 0 || e == 0x7FF;
}
static inline uint64_t mk(unsigned sign, unsigned e, uint64_t frac) {
    return ((uint64_t)(sign & 1) << 63) | ((uint64_t)(e & 0x7FF) << 52) |
           (frac & FRAC_MASK);
}

/* the m-bit significand (leading one included) of a normal value is the
 * nearest one: does rounding carry into the next binade? */
static inline int carries(uint64_t u, unsigned m) {
    return frac_of(u) >= FRAC_ONE - (1ULL << (52 - m));
}
/* |x| rounds to 2^1024, i.e. above DBL_MAX */
static inline int rounds_above_max(uint64_t u, unsigned m) {
    return expf_of(u) == 2046 && carries(u, m);
}
/* discarded bits are exactly one half of the last kept place */
static inline int is_tie(uint64_t u, unsigned m) {
    unsigned shift = 53 - m;
    return (frac_of(u) & ((1ULL << shift) - 1)) == (1ULL << (shift - 1));
}

/* significand widths (leading one included) of the "narrow format" classes:
 * around LOW (4), bfloat16 (8), around MEDIUM (10) / binary16 (11), around
 * HIGH (23) / binary32 (24), 32, 52.  Index 0 is the default of the per-array
 * shape (binary32) and "not narrow" for the per-element class. */
static const unsigned KTAB[16] = {24, 3,  4,  5,  8,  9,  10, 11,
                                  12, 21, 22, 23, 24, 25, 32, 52};
static int in_ktab(unsigned k) {
    for (unsigned i = 1; i < 16; i++) {
        if (KTAB[i] == k) {
            return 1;
        }
    }
    return 0;
}
/* number of significand bits a normal value needs (1..53) */
static inline unsigned sigbits(uint64_t u) {
    uint64_t f = frac_of(u);
    return f ? 53u - (unsigned)__builtin_ctzll(f) : 1u;
}
/* fraction cut to a k-bit significand (k = 3..52), lowest kept bit forced */
static inline uint64_t narrow(uint64_t f, unsigned k, int odd) {
    unsigned drop = 53 - k;
    f &= FRAC_MASK & ~((1ULL << drop) - 1);
    if (odd) {
        f |= 1ULL << drop;
    }
    return f;
}

/* |d - x| <= b * |x| ?  d - x is exact in the 64-bit significand whenever the
 * two doubles are within 2^11 of each other (and otherwise the difference is
 * > |x|/2, far above any bound < 1); b*|x| is exact for b = 2^-m, and for an
 * arbitrary double b the rounding error of the product is recovered with fmal,
 * so the comparison is exact in both cases. */
static int within(double x, double d, long double b) {
    long double lx = fabsl((long double)x);
    long double diff = fabsl((long double)d - (long double)x);
    long double p = b * lx;
    if (diff < p) {
        return 1;
    }
    if (diff > p) {
        return 0;
    }
    return fmal(b, lx, -p) >= 0.0L;
}

/* published bound of a precision -> (bound, m); m < 0 if not a power of two */
static int published(varintFloatPrecision p, long double *bound) {
    double b = varintFloatPrecisionMaxRelativeError(p);
    int e = 0;
    double f = frexp(b, &e);
    *bound = (long double)b;
    if (b > 0 && f == 0.5 && 1 - e >= 1 && 1 - e <= 52) {
        return 1 - e;
    }
    return -1;
}

/* ---------------------------------------------------------------- generator */
static unsigned take_exp(vf_rd *r, unsigned ec) {
    switch (ec & 15) {
    case 0:
        return 1023;
    case 1:
        return 0;
    case 2:
        return 1;
    case 3:
        return 2;
    case 4:
        return 1022;
    case 5:
        return 1024;
    case 6:
        return 2045;
    case 7:
        return 2046;
    case 8:
        return 2047;
    case 9:
        return vf_u16(r) % 2048u; /* uniform, specials included */
    case 10:
        return 1 + vf_u16(r) % 2046u; /* uniform normal */
    case 11:
        return 1023 - 128 + vf_u8(r); /* 895..1150 */
    case 12:
        return 1023 + 253 + vf_u8(r) % 5u; /* with 1023: spread 253..257 */
    case 13:
        return 1021 + vf_u8(r) % 5u; /* around one */
    case 14:
        return 2047;
    default:
        return 1 + vf_u16(r) % 2046u;
    }
}

static int g_elem_narrow = 1; /* narrow-format element class enabled */
static unsigned g_kseen;      /* KTAB indices drawn by that class (per case) */
static int g_in_bulk, g_kseen_bulk; /* ... inside a bulk expansion */

static uint64_t take_mant(vf_rd *r, unsigned mc) {
    switch (mc & 7) {
    case 0:
        return 0;
    case 1:
        return 1;
    case 2:
        return FRAC_MASK;
    case 3: { /* k leading ones, k around the kept width: rounding carry */
        unsigned a = vf_u8(r);
        unsigned m = MB[a % 3];
        unsigned k = m - 1 + (a / 3) % 3; /* m-1, m, m+1 fraction bits set */
        unsigned tail = (a / 9) % 4;
        unsigned rest = 52 - k;
        uint64_t top = ((1ULL << k) - 1) << rest;
        uint64_t low;
        switch (tail) {
        case 0:
            low = (1ULL << rest) - 1;
            break;
        case 1:
            low = 0;
            break;
        case 2:
            low = 1ULL << (rest - 1);
            break;
        default:
            low = vf_mix(0x51, vf_u16(r)) & ((1ULL << rest) - 1);
            break;
        }
        return top | low;
    }
    case 4: { /* kept bits, then exactly half (+-1 ulp) */
        unsigned a = vf_u8(r);
        unsigned m = MB[a % 3];
        unsigned var = (a / 3) % 3;
        unsigned shift = 53 - m;
        uint64_t keep = (uint64_t)vf_u32(r) & ((1ULL << (m - 1)) - 1);
        uint64_t half = 1ULL << (shift - 1);
        uint64_t low = var == 0 ? half : var == 1 ? half - 1 : half + 1;
        return (keep << shift) | low;
    }
    case 5: {
        uint32_t s = vf_u32(r);
        return s ? (vf_mix(0xF10A7, s) & FRAC_MASK) : 0;
    }
    case 6: {
        uint64_t v = 0;
        for (int i = 0; i < 7; i++) {
            v |= (uint64_t)vf_u8(r) << (8 * i);
        }
        unsigned nib = (unsigned)(v >> 52) & 15;
        if (nib && g_elem_narrow) {
            if (g_in_bulk) {
                g_kseen_bulk = 1;
            } else {
                g_kseen |= 1u << nib;
            }
            return narrow(v, KTAB[nib], (int)(v & 1));
        }
        return v & FRAC_MASK;
    }
    default:
        return 1ULL << (vf_u8(r) % 52u);
    }
}

/* gate != 0: no deliberate carry patterns (mantissa classes 2 and 3 become
 * "random"), so that arrays without a rounding carry stay frequent */
static uint64_t take_elem(vf_rd *r, unsigned gate) {
    unsigned d = vf_u8(r);
    unsigned e = take_exp(r, (d >> 3) & 15);
    unsigned mc = d & 7;
    if (gate && (mc == 2 || mc == 3)) {
        mc = 5;
    }
    uint64_t f = take_mant(r, mc);
    return mk(d >> 7, e, f);
}

/* element from the pseudo-random stream (bulk shapes) */
static unsigned g_gate; /* set per case by take_doubles */
static int g_bulk_narrow; /* narrow-format elements inside bulk expansions */
static uint64_t xs_elem(uint64_t *s) {
    uint8_t buf[16];
    uint64_t a = vf_xs(s), b = vf_xs(s);
    memcpy(buf, &a, 8);
    memcpy(buf + 8, &b, 8);
    vf_rd r = {buf, sizeof(buf), 0};
    g_elem_narrow = g_bulk_narrow;
    g_in_bulk = 1;
    uint64_t u = take_elem(&r, g_gate);
    g_in_bulk = 0;
    g_elem_narrow = 1;
    return u;
}

static uint64_t xs_special(uint64_t *s) {
    uint64_t u = xs_elem(s);
    uint64_t k = vf_xs(s);
    unsigned e = (k & 1) ? 0x7FF : 0;
    uint64_t f = frac_of(u);
    if ((k & 6) == 0) {
        f = 0; /* zero / infinity */
    }
    return mk((unsigned)(u >> 63), e, f);
}

static const double REQ_T[7] = {0x1p-52, 1e-10, 0x1p-23, 5e-4,
                                0x1p-10, 0.03,  0x1p-4};

static double clamp_req(double q) {
    if (!(q > 0.0)) {
        q = DBL_MIN;
    }
    if (q >= 1.0) {
        q = nextafter(1.0, 0.0);
    }
    return q;
}

/* t itself, its neighbours, or t * (1 -+ 2^-j) */
static double req_variant(double t, unsigned var, unsigned j) {
    switch (var) {
    case 1:
        return nextafter(t, 0.0);
    case 2:
        return nextafter(t, 1.0);
    case 3:
        return nextafter(nextafter(t, 0.0), 0.0);
    case 4:
        return nextafter(nextafter(t, 1.0), 1.0);
    case 5:
        return t * (1.0 - ldexp(1.0, -(int)(1 + j % 50u)));
    case 6:
        return t * (1.0 + ldexp(1.0, -(int)(1 + j % 50u)));
    default:
        return t;
    }
}

/* a requested error is either fixed by its own bytes or, for the two
 * array-relative classes, placed once the array has been decoded */
typedef struct reqspec {
    double q;      /* resolved request */
    int near_idx;  /* index into REQ_T or -1 */
    int rel;       /* 0 fixed, 1 next to 2^-(k+off), 2 log-uniform around it */
    int off;       /* exponent offset */
    unsigned kfix; /* explicit k for rel == 1 (0: the array's) */
    unsigned var, j, f, kb;
} reqspec;

static void take_req(vf_rd *r, reqspec *rq) {
    unsigned a = vf_u8(r);
    memset(rq, 0, sizeof(*rq));
    rq->near_idx = -1;
    if ((a & 3) == 0) {
        unsigned raw = (a >> 2) & 7;
        unsigned var = (a >> 5) & 7;
        if (raw == 7) {
            static const int offs[4] = {0, -1, 1, 2};
            unsigned b = vf_u8(r);
            rq->rel = 1;
            rq->off = offs[b & 3];
            rq->kfix = ((b >> 2) & 15) ? KTAB[(b >> 2) & 15] : 0;
            rq->var = var;
            rq->j = (var == 5 || var == 6) ? vf_u8(r) : 0;
            return;
        }
        rq->near_idx = (int)raw;
        rq->q = clamp_req(req_variant(
            REQ_T[raw], var, (var == 5 || var == 6) ? vf_u8(r) : 0));
    } else {
        unsigned kb = vf_u8(r);
        unsigned f = vf_u16(r);
        rq->kb = kb;
        rq->f = f;
        if ((kb >> 6) == 2) {
            rq->rel = 2;
            rq->off = (int)((kb & 63) % 4u) - 2;
            return;
        }
        rq->q = clamp_req(ldexp(1.0 + (double)f / 65536.0, -(int)(kb % 64u + 1)));
    }
}

/* karr: widest significand among the normal elements, 0 if there is none or
 * the array is not narrow (53 bits) */
static void resolve_req(reqspec *rq, unsigned karr) {
    if (rq->rel == 1) {
        unsigned k = rq->kfix ? rq->kfix : karr ? karr : 24;
        int e = (int)k + rq->off;
        rq->q = clamp_req(req_variant(ldexp(1.0, -e), rq->var, rq->j));
    } else if (rq->rel == 2) {
        int e = karr ? (int)karr + rq->off : (int)(rq->kb % 64u);
        if (!karr) {
            rq->rel = 0; /* old meaning of these bytes */
        }
        rq->q = clamp_req(ldexp(1.0 + (double)rq->f / 65536.0, -(e + 1)));
    }
}

enum {
    SH_EXPLICIT = 0,
    SH_BINADE,
    SH_LE255,
    SH_GE256,
    SH_SPECIALS,
    SH_MIX,
    SH_COUNT
};
static const char *const SHN[SH_COUNT] = {"explicit", "binade",   "spread<=255",
                                          "spread>=256", "specials", "mix"};

static size_t max_n(void) {
    return vf_tier() == 1 ? 8000 : 2000;
}

/* per-array "narrow format" modifier (shape byte & 7 == 7) */
typedef struct narrow_mod {
    int on;
    unsigned k;    /* significand bits kept */
    int but1;      /* one normal element stays a full double */
    unsigned win;  /* exponent window: keep / binary16 / binary32 / around 1 */
    unsigned odd;  /* lowest kept bit: half / all / as drawn / exactly one */
    unsigned salt;
} narrow_mod;
static narrow_mod g_mod;
static const char *const WINN[4] = {"keep", "half", "float", "one"};
static const char *const ODDN[4] = {"half", "all", "drawn", "one"};

static void apply_narrow(uint64_t *v, size_t n, const narrow_mod *m) {
    size_t normals = 0;
    for (size_t i = 0; i < n; i++) {
        normals += !is_special_bits(v[i]);
    }
    if (!normals) {
        return;
    }
    uint64_t h = vf_mix(vf_mix(vf_mix(0xA770, m->salt), n), v[0]);
    size_t ex = (m->but1 && normals >= 2) ? (size_t)(h % normals) : (size_t)-1;
    size_t one = (size_t)((h >> 32) % normals);
    if (one == ex) {
        one = (one + 1) % normals;
    }
    size_t q = 0; /* running index among the normal elements */
    for (size_t i = 0; i < n; i++) {
        uint64_t u = v[i];
        if (is_special_bits(u)) {
            continue;
        }
        unsigned e = expf_of(u);
        uint64_t f = frac_of(u);
        switch (m->win) {
        case 1:
            e = 1009 + e % 30u; /* binary16 normal range */
            break;
        case 2:
            e = 897 + e % 254u; /* binary32 normal range */
            break;
        case 3:
            e = 1022 + e % 4u;
            break;
        default:
            break;
        }
        if (q == ex) {
            f |= 1; /* needs all 53 bits */
        } else {
            int odd;
            switch (m->odd) {
            case 0:
                odd = (int)(vf_mix(h, i) & 1);
                break;
            case 1:
                odd = 1;
                break;
            case 2:
                odd = 0;
                break;
            default:
                odd = q == one;
                break;
            }
            f = narrow(f, m->k, odd);
        }
        v[i] = mk((unsigned)(u >> 63), e, f);
        q++;
    }
}

static uint64_t *take_base(vf_rd *r, size_t *np, unsigned *shp);

/* decode the array part of a case; returns malloc'd bit patterns */
static uint64_t *take_doubles(vf_rd *r, size_t *np, unsigned *shp) {
    memset(&g_mod, 0, sizeof(g_mod));
    g_bulk_narrow = 0;
    g_kseen = 0;
    g_kseen_bulk = 0;
    if (vf_left(r) > 0 && (r->p[r->pos] & 7) == 7) {
        unsigned s = vf_u8(r);
        unsigned m1 = vf_u8(r);
        g_mod.on = 1;
        g_mod.k = KTAB[(s >> 3) & 15];
        g_mod.but1 = (int)(s >> 7);
        g_mod.win = m1 & 3;
        g_mod.odd = (m1 >> 2) & 3;
        g_mod.salt = m1 >> 4;
    }
    uint64_t *v = take_base(r, np, shp);
    if (g_mod.on) {
        apply_narrow(v, *np, &g_mod);
    }
    return v;
}

static uint64_t *take_base(vf_rd *r, size_t *np, unsigned *shp) {
    static const unsigned shmap[8] = {SH_EXPLICIT, SH_BINADE,   SH_LE255,
                                      SH_GE256,    SH_SPECIALS, SH_EXPLICIT,
                                      SH_MIX,      SH_EXPLICIT};
    unsigned s = vf_u8(r);
    unsigned sh = shmap[s & 7];
    int sprinkle = (s >> 3) & 1;
    unsigned gate = (s >> 6) & 3;
    g_gate = gate;
    *shp = sh;
    if (sh == SH_EXPLICIT) {
        uint64_t *v = (uint64_t *)malloc(64 * sizeof(uint64_t));
        size_t n = 0;
        if (!v) {
            abort();
        }
        /* bits 4-5: fold the exponents of normal elements into a window so
         * that small spreads are as frequent as huge ones */
        unsigned fold = (s >> 4) & 3;
        do {
            uint64_t u = take_elem(r, gate);
            if (!is_special_bits(u) && (fold == 1 || fold == 2)) {
                unsigned e = expf_of(u);
                e = fold == 1 ? 896 + e % 256u : 1022 + e % 4u;
                u = mk((unsigned)(u >> 63), e, frac_of(u));
            }
            v[n++] = u;
        } while (n < 64 && vf_left(r) > 0);
        *np = n;
        return v;
    }
    unsigned L = vf_u8(r);
    size_t n;
    if (L < 232) {
        n = 1 + L % 64u;
        g_bulk_narrow = (L >> 6) & 1;
    } else {
        unsigned w = vf_u16(r);
        n = 65 + w % (max_n() - 64);
        g_bulk_narrow = (int)((w / (max_n() - 64)) & 1);
    }
    uint64_t seed = ((uint64_t)vf_u32(r) << 1) | 1; /* never 0 */
    seed = vf_mix(seed, 0xC07);
    if (!seed) {
        seed = 1;
    }
    uint64_t *v = (uint64_t *)malloc(n * sizeof(uint64_t));
    if (!v) {
        abort();
    }
    switch (sh) {
    case SH_BINADE: {
        unsigned e = take_exp(r, vf_u8(r));
        if (e == 0) {
            e = 1;
        }
        if (e == 2047) {
            e = 2046;
        }
        for (size_t i = 0; i < n; i++) {
            uint64_t u = xs_elem(&seed);
            v[i] = mk((unsigned)(u >> 63), e, frac_of(u));
        }
        break;
    }
    case SH_LE255: {
        unsigned D = vf_u8(r) ^ 0xFF; /* 0 -> 255: the boundary is simplest */
        unsigned e0 = 1 + vf_u16(r) % (2046u - D);
        for (size_t i = 0; i < n; i++) {
            uint64_t u = xs_elem(&seed);
            unsigned e = e0 + (unsigned)(vf_xs(&seed) % (D + 1));
            v[i] = mk((unsigned)(u >> 63), e, frac_of(u));
        }
        if (n >= 2) {
            size_t lo = (size_t)(vf_xs(&seed) % n);
            size_t hi = (lo + 1 + (size_t)(vf_xs(&seed) % (n - 1))) % n;
            v[lo] = mk((unsigned)(v[lo] >> 63), e0, frac_of(v[lo]));
            v[hi] = mk((unsigned)(v[hi] >> 63), e0 + D, frac_of(v[hi]));
        }
        break;
    }
    case SH_GE256: {
        unsigned a = vf_u8(r);
        unsigned D;
        switch (a & 3) {
        case 0:
            D = 256;
            break;
        case 1:
            D = 257;
            break;
        case 2:
            D = 2045;
            break;
        default:
            D = 256 + vf_u16(r) % 1790u;
            break;
        }
        unsigned e0 = 1 + vf_u16(r) % (2046u - D);
        unsigned layout = (a >> 2) & 3;
        size_t outlier = (size_t)(vf_xs(&seed) % n);
        for (size_t i = 0; i < n; i++) {
            uint64_t u = xs_elem(&seed);
            uint64_t k = vf_xs(&seed);
            unsigned e;
            switch (layout) {
            case 0: /* uniform over the span */
                e = e0 + (unsigned)(k % (D + 1));
                break;
            case 1: /* two clusters */
                e = (k & 1) ? e0 + D : e0;
                break;
            case 2: /* one outlier among one binade */
                e = i == outlier ? e0 + D : e0;
                break;
            default: /* ramp (time series) */
                e = n > 1 ? e0 + (unsigned)((uint64_t)D * i / (n - 1)) : e0;
                break;
            }
            v[i] = mk((unsigned)(u >> 63), e, frac_of(u));
        }
        if (n >= 2) {
            size_t lo = (outlier + 1 + (size_t)(vf_xs(&seed) % (n - 1))) % n;
            v[lo] = mk((unsigned)(v[lo] >> 63), e0, frac_of(v[lo]));
            v[outlier] =
                mk((unsigned)(v[outlier] >> 63), e0 + D, frac_of(v[outlier]));
        }
        break;
    }
    case SH_SPECIALS: {
        unsigned a = vf_u8(r);
        unsigned period = 1 + (a & 7);
        unsigned phase = (a >> 3) % period;
        for (size_t i = 0; i < n; i++) {
            if (i % period == phase) {
                v[i] = xs_special(&seed);
            } else {
                v[i] = xs_elem(&seed);
            }
        }
        break;
    }
    default:
        for (size_t i = 0; i < n; i++) {
            v[i] = xs_elem(&seed);
        }
        break;
    }
    if (sprinkle && sh != SH_SPECIALS) {
        for (size_t i = 0; i < n; i++) {
            if ((vf_xs(&seed) & 7) == 0) {
                v[i] = xs_special(&seed);
            }
        }
    }
    /* explicit overrides at chosen indices */
    for (unsigned k = 0; k < 8 && vf_left(r) >= 3; k++) {
        size_t idx = vf_u16(r) % n;
        v[idx] = take_elem(r, 0);
    }
    *np = n;
    return v;
}

/* ------------------------------------------------------------------- oracle */
typedef struct ctx {
    vf_report *rep;
    int quiet; /* deterministic sweep: no class counters */
} ctx;

#define CLS(c, name)                                                           \
    do {                                                                       \
        if (!(c)->quiet) {                                                     \
            vf_class(name);                                                    \
        }                                                                      \
    } while (0)

static void describe_pm(char *buf, size_t cap, unsigned prec, unsigned mode,
                        int isauto, double req) {
    if (isauto) {
        snprintf(buf, cap, "auto(req=%.17g=%a)/%s", req, req, MN[mode]);
    } else {
        snprintf(buf, cap, "%s/%s", PN[prec], MN[mode]);
    }
}

/* returns non-zero when a violation was reported */
static int check_array(ctx *c, const uint64_t *bits, size_t n, unsigned prec,
                       unsigned mode, int isauto, double req, uint8_t fill) {
    vf_report *rep = c->rep;
    char pm[96];
    describe_pm(pm, sizeof(pm), prec, mode, isauto, req);

    double *vals = (double *)malloc(n * sizeof(double));
    if (!vals) {
        abort();
    }
    memcpy(vals, bits, n * sizeof(double));

    /* C03 owns the size bound; it is used here as the caller would, plus
     * slack, and an overrun of bound+slack is left to ASan / the canary */
    size_t bound = varintFloatMaxEncodedSize(
        n, isauto ? VARINT_FLOAT_PRECISION_FULL : (varintFloatPrecision)prec);
    size_t cap = bound + 32;
    uint8_t *out = (uint8_t *)vf_exact_alloc(cap);
    memset(out, fill, cap);
    varintFloatPrecision sel = (varintFloatPrecision)prec;
    size_t enc;
    if (isauto) {
        sel = (varintFloatPrecision)0x7f;
        enc = varintFloatEncodeAuto(out, vals, n, req,
                                    (varintFloatEncodingMode)mode, &sel);
    } else {
        enc = varintFloatEncode(out, vals, n, (varintFloatPrecision)prec,
                                (varintFloatEncodingMode)mode);
    }
    uint8_t *in = NULL;
    double *dec = NULL;
    int bad = 0;
    if (vf_exact_check(out)) {
        bad = vf_fail(rep, "float.encode.canary", "canary",
                      "%s n=%zu: encoder wrote past MaxEncodedSize+32 = %zu "
                      "bytes (returned %zu)",
                      pm, n, cap, enc);
        goto done;
    }
    if (memcmp(vals, bits, n * sizeof(double)) != 0) {
        bad = vf_fail(rep, "float.encode.input", "value",
                      "%s n=%zu: encoder modified its const input array", pm,
                      n);
        goto done;
    }
    if (enc == 0 || enc > cap) {
        bad = vf_fail(rep, "float.encode.length", "length",
                      "%s n=%zu: encoder returned %zu (capacity %zu)", pm, n,
                      enc, cap);
        goto done;
    }
    if (enc > bound) {
        CLS(c, "size.over_published_bound"); /* C03's business, not C07's */
    }
    if (isauto && (unsigned)sel > 3) {
        bad = vf_fail(rep, "float.auto.selected", "value",
                      "%s n=%zu: selected_precision = %d is not a precision",
                      pm, n, (int)sel);
        goto done;
    }
    unsigned eff = (unsigned)sel; /* precision in force */

    /* decode from an exact-size copy into an exact-size destination */
    in = (uint8_t *)vf_exact_alloc(enc);
    memcpy(in, out, enc);
    dec = (double *)vf_exact_alloc(n * sizeof(double));
    memset(dec, 0xCD, n * sizeof(double));
    size_t got = varintFloatDecode(in, n, dec);
    if (vf_exact_check(dec)) {
        bad = vf_fail(rep, "float.decode.canary", "canary",
                      "%s n=%zu: decoder wrote past count*8 bytes", pm, n);
        goto done;
    }
    if (memcmp(in, out, enc) != 0) {
        bad = vf_fail(rep, "float.decode.input", "value",
                      "%s n=%zu: decoder modified its const input", pm, n);
        goto done;
    }
    if (got != enc) {
        bad = vf_fail(rep, "float.length", "length",
                      "%s n=%zu: encoder returned %zu bytes, decoder consumed "
                      "%zu",
                      pm, n, enc, got);
        goto done;
    }

    /* ---- classes over the decoded case (independent of the library) */
    size_t normals = 0, specials = 0;
    unsigned emin = 2047, emax = 0;
    int anyCarry = 0, anyCarryInf = 0, anyTie = 0;
    int nNan = 0, nInf = 0, nZero = 0, nSub = 0;
    unsigned sb1 = 0, sb2 = 0; /* widest and second widest significand */
    long double pubBound = 0;
    int m = 52;
    if (eff != VARINT_FLOAT_PRECISION_FULL) {
        m = published((varintFloatPrecision)eff, &pubBound);
        if (m < 0) {
            /* the published bound is documented as 2^-(mantissa bits) */
            bad = vf_fail(rep, "float.bound.published", "value",
                          "varintFloatPrecisionMaxRelativeError(%s) = %Lg is "
                          "not 2^-m",
                          PN[eff], pubBound);
            goto done;
        }
    }
    for (size_t i = 0; i < n; i++) {
        uint64_t u = bits[i];
        if (is_special_bits(u)) {
            specials++;
            if (expf_of(u) == 0) {
                if (frac_of(u)) {
                    nSub++;
                } else {
                    nZero++;
                }
            } else if (frac_of(u)) {
                nNan++;
            } else {
                nInf++;
            }
            continue;
        }
        normals++;
        {
            unsigned sb = sigbits(u);
            if (sb > sb1) {
                sb2 = sb1;
                sb1 = sb;
            } else if (sb > sb2) {
                sb2 = sb;
            }
        }
        unsigned e = expf_of(u);
        if (e < emin) {
            emin = e;
        }
        if (e > emax) {
            emax = e;
        }
        if (eff != VARINT_FLOAT_PRECISION_FULL) {
            if (carries(u, (unsigned)m)) {
                anyCarry = 1;
                if (e == 2046) {
                    anyCarryInf = 1;
                }
            }
            if (is_tie(u, (unsigned)m)) {
                anyTie = 1;
            }
        }
    }
    unsigned spread = normals ? emax - emin : 0;
    if (!c->quiet) {
        char cls[64];
        if (isauto) {
            snprintf(cls, sizeof(cls), "auto.mode.%s", MN[mode]);
            vf_class(cls);
            snprintf(cls, sizeof(cls), "auto.sel.%s", PN[eff]);
            vf_class(cls);
            vf_class(req < 0x1p-52   ? "auto.band.lt2^-52"
                     : req < 0x1p-23 ? "auto.band.2^-52..2^-23"
                     : req < 0x1p-10 ? "auto.band.2^-23..2^-10"
                     : req < 0x1p-4  ? "auto.band.2^-10..2^-4"
                                     : "auto.band.ge2^-4");
        } else {
            snprintf(cls, sizeof(cls), "pm.%s.%s", PN[prec], MN[mode]);
            vf_class(cls);
        }
        if (anyCarry) {
            vf_class("carry");
        }
        if (anyCarryInf) {
            vf_class("carry.above_dbl_max");
        }
        if (anyTie) {
            vf_class("tie");
        }
        vf_class(normals == 0  ? "spread.no_normals"
                 : spread == 0 ? "spread.0"
                 : spread == 1 ? "spread.1"
                 : spread < 255 ? "spread.2-254"
                 : spread == 255 ? "spread.255"
                 : spread == 256 ? "spread.256"
                                 : "spread.gt256");
        if (spread > 255) {
            vf_class("spread.gt255");
            if (mode == VARINT_FLOAT_MODE_COMMON_EXPONENT) {
                vf_class("spread.gt255.COMMON");
            }
        }
        vf_class(specials == 0  ? "specials.none"
                 : normals == 0 ? "specials.only"
                                : "specials.mixed");
        if (nNan) {
            vf_class("special.nan");
        }
        if (nInf) {
            vf_class("special.inf");
        }
        if (nZero) {
            vf_class("special.zero");
        }
        if (nSub) {
            vf_class("special.subnormal");
        }
        vf_class(n == 1 ? "len.1" : n <= 8 ? "len.2-8" : n <= 64 ? "len.9-64"
                                                                 : "len.65+");
        /* narrow-format arrays, judged on the decoded values: every normal
         * element fits a k-bit significand and one of them uses all k bits;
         * or all but one do */
        if (normals >= 2 && sb1 <= 52) {
            const char *pn = isauto ? "auto" : PN[prec];
            if (in_ktab(sb1)) {
                snprintf(cls, sizeof(cls), "narrow.all.k%u", sb1);
                vf_class(cls);
            } else {
                vf_class("narrow.all.other");
            }
            snprintf(cls, sizeof(cls), "narrow.all.%s", pn);
            vf_class(cls);
            snprintf(cls, sizeof(cls), "narrow.all.%s", MN[mode]);
            vf_class(cls);
            vf_class(normals < 9 ? "narrow.all.n2-8"
                     : normals < 65 ? "narrow.all.n9-64"
                                    : "narrow.all.n65+");
        }
        if (normals >= 3 && sb2 < sb1 && sb2 <= 52) {
            if (in_ktab(sb2)) {
                snprintf(cls, sizeof(cls), "narrow.allbut1.k%u", sb2);
                vf_class(cls);
            } else {
                vf_class("narrow.allbut1.other");
            }
            snprintf(cls, sizeof(cls), "narrow.allbut1.%s",
                     isauto ? "auto" : PN[prec]);
            vf_class(cls);
            vf_class(normals < 9 ? "narrow.allbut1.n3-8"
                     : normals < 65 ? "narrow.allbut1.n9-64"
                                    : "narrow.allbut1.n65+");
        }
        if (isauto && normals >= 1 && sb1 >= 3 && sb1 <= 52) {
            /* the request against the weight of the last significand bit
             * (dropping it costs between 2^-k and 2^-(k-1) relative) */
            double lo = ldexp(1.0, -(int)sb1), hi = ldexp(1.0, 1 - (int)sb1);
            vf_class(req < lo    ? "auto.narrow.req_lt_2^-k"
                     : req < hi ? "auto.narrow.req_in_2^-k..2^-(k-1)"
                                 : "auto.narrow.req_ge_2^-(k-1)");
            if (normals >= 2) {
                vf_class(req < lo ? "auto.narrow.multi.req_lt_2^-k"
                                  : "auto.narrow.multi.req_ge_2^-k");
            }
        }
    }

    /* ---- per-element verdict.  An encoding made by EncodeAuto is first held
     * to the guarantee of the precision it reports (bit-exact for FULL, the
     * published bound otherwise) and then to the requested error, so that
     * float.auto.error fires exactly when the selection is looser than the
     * request. */
    size_t escapes = 0;
    for (size_t i = 0; i < n && !bad; i++) {
        uint64_t u = bits[i];
        uint64_t g;
        memcpy(&g, &dec[i], 8);
        double x = bits2d(u);
        /* the library's own classifier must agree with the documented list
         * (NaN, infinity, denormal, zero) the oracle is stated in */
        if ((varintFloatIsSpecial(x) ? 1 : 0) != is_special_bits(u)) {
            bad = vf_fail(rep, "float.isspecial", "value",
                          "varintFloatIsSpecial(0x%016llx = %.17g) = %d",
                          (unsigned long long)u, x,
                          (int)varintFloatIsSpecial(x));
            break;
        }
        if (eff == VARINT_FLOAT_PRECISION_FULL) {
            if (g != u) {
                bad = vf_fail(rep, "float.full.bits", "value",
                              "%s%s n=%zu spread=%u: element %zu = %.17g "
                              "(0x%016llx) decoded as %.17g (0x%016llx)",
                              pm, isauto ? " selected FULL" : "", n, spread, i,
                              x, (unsigned long long)u, bits2d(g),
                              (unsigned long long)g);
            }
            continue;
        }
        if (is_special_bits(u)) {
            if (g != u) {
                bad = vf_fail(rep, "float.lossy.special", "value",
                              "%s%s%s n=%zu: special element %zu = %.17g "
                              "(0x%016llx) decoded as %.17g (0x%016llx)",
                              pm, isauto ? " selected " : "",
                              isauto ? PN[eff] : "", n, i, x,
                              (unsigned long long)u, bits2d(g),
                              (unsigned long long)g);
            }
            continue;
        }
        double d = bits2d(g);
        if (isinf(d) && (g >> 63) == (u >> 63) &&
            rounds_above_max(u, (unsigned)m)) {
            escapes++; /* the documented escape */
            continue;
        }
        long double rel = isfinite(d)
                              ? fabsl((long double)d - (long double)x) /
                                    fabsl((long double)x)
                              : (long double)INFINITY;
        if (!isfinite(d) || !within(x, d, pubBound)) {
            /* two sub-checks: values whose rounding carries into the next
             * binade, and all the others */
            bad = vf_fail(rep,
                          carries(u, (unsigned)m) ? "float.lossy.carry"
                                                  : "float.lossy.error",
                          "bound",
                          "%s%s%s n=%zu spread=%u: element %zu = %.17g "
                          "(0x%016llx) decoded as %.17g (0x%016llx): "
                          "relative error %.6Lg > published 2^-%d = %.6Lg",
                          pm, isauto ? " selected " : "",
                          isauto ? PN[eff] : "", n, spread, i, x,
                          (unsigned long long)u, d, (unsigned long long)g, rel,
                          m, pubBound);
        } else if (isauto && !within(x, d, (long double)req)) {
            bad = vf_fail(rep, "float.auto.error", "bound",
                          "%s selected %s (published 2^-%d = %.6Lg) n=%zu "
                          "spread=%u: element %zu = %.17g (0x%016llx) decoded "
                          "as %.17g (0x%016llx): relative error %.6Lg > "
                          "requested %.17g",
                          pm, PN[eff], m, pubBound, n, spread, i, x,
                          (unsigned long long)u, d, (unsigned long long)g, rel,
                          req);
        }
    }

    if (escapes) {
        CLS(c, "escape.inf_taken");
    }
    if (!bad && !c->quiet) {
        int lossy = isauto || prec != VARINT_FLOAT_PRECISION_FULL;
        if (normals >= 1 && (lossy || specials >= 1 || spread >= 2)) {
            uint64_t rq;
            memcpy(&rq, &req, 8);
            uint64_t h = vf_mix(vf_mix(isauto ? 4 : prec, mode),
                                isauto ? rq : 0);
            h = vf_hash_bytes(h, bits, n * sizeof(uint64_t));
            vf_nontrivial(h);
        }
    }
done:
    vf_exact_free(out);
    vf_exact_free(in);
    vf_exact_free(dec);
    free(vals);
    return bad;
}

/* ------------------------------------------------------------------ driver */
void vf_run(vf_rd *r, vf_report *rep) {
    static const uint8_t fills[2] = {0xA5, 0xFF};
    ctx c = {rep, 0};
    unsigned sel = vf_u8(r);
    unsigned prec = sel & 3;
    static const unsigned modemap[4] = {0, 1, 2, 1};
    unsigned mode = modemap[(sel >> 2) & 3];
    int isauto = ((sel >> 4) & 7) >= 5;
    uint8_t fill = fills[sel >> 7];
    double req = 0;
    reqspec rq;
    if (isauto) {
        take_req(r, &rq);
        prec = 0;
    }
    size_t n = 0;
    unsigned sh = 0;
    uint64_t *bits = take_doubles(r, &n, &sh);
    if (isauto) {
        unsigned karr = 0;
        for (size_t i = 0; i < n; i++) {
            if (!is_special_bits(bits[i]) && sigbits(bits[i]) > karr) {
                karr = sigbits(bits[i]);
            }
        }
        if (karr < 3 || karr > 52) {
            karr = 0;
        }
        resolve_req(&rq, karr);
        req = rq.q;
        vf_class(rq.rel         ? "auto.req.array_relative"
                 : rq.near_idx >= 0 ? "auto.req.near_threshold"
                                    : "auto.req.loguniform");
    }
    {
        char cls[48];
        snprintf(cls, sizeof(cls), "shape.%s", SHN[sh]);
        vf_class(cls);
        if (g_mod.on) {
            vf_class(g_mod.but1 ? "shape.narrow.allbut1" : "shape.narrow.all");
            snprintf(cls, sizeof(cls), "shape.narrow.%s", SHN[sh]);
            vf_class(cls);
            snprintf(cls, sizeof(cls), "shape.narrow.win.%s", WINN[g_mod.win]);
            vf_class(cls);
            snprintf(cls, sizeof(cls), "shape.narrow.odd.%s", ODDN[g_mod.odd]);
            vf_class(cls);
        }
        for (unsigned i = 1; i < 16; i++) {
            if (g_kseen & (1u << i)) {
                snprintf(cls, sizeof(cls), "elem.narrow.k%u", KTAB[i]);
                vf_class(cls);
            }
        }
        if (g_kseen_bulk) {
            vf_class("elem.narrow.in_bulk");
        }
    }
    char pm[96];
    describe_pm(pm, sizeof(pm), prec, mode, isauto, req);
    vf_desc(rep, "%s fill=0x%02x shape=%s", pm, fill, SHN[sh]);
    if (g_mod.on) {
        vf_desc(rep, "+narrow(k=%u,%s,exp=%s,lsb=%s)", g_mod.k,
                g_mod.but1 ? "all-but-one" : "all", WINN[g_mod.win],
                ODDN[g_mod.odd]);
    }
    vf_desc(rep, " n=%zu [", n);
    for (size_t i = 0; i < n && i < 6; i++) {
        vf_desc(rep, "%s%.17g(0x%016llx)", i ? ", " : "", bits2d(bits[i]),
                (unsigned long long)bits[i]);
    }
    vf_desc(rep, "%s]", n > 6 ? ", ..." : "");
    check_array(&c, bits, n, prec, mode, isauto, req, fill);
    free(bits);
}

/* ------------------------------------------------------------------- sweep */
static size_t sweep_mantissas(uint64_t *out) {
    size_t k = 0;
    out[k++] = 0;
    out[k++] = 1;
    out[k++] = FRAC_MASK;
    out[k++] = 0x8000000000000ULL;
    out[k++] = 0x5555555555555ULL;
    for (unsigned mi = 0; mi < 3; mi++) {
        unsigned m = MB[mi];
        for (unsigned j = 0; j < 3; j++) {
            unsigned ones = m - 1 + j;
            unsigned rest = 52 - ones;
            uint64_t top = ((1ULL << ones) - 1) << rest;
            out[k++] = top | ((1ULL << rest) - 1);
            out[k++] = top;
            out[k++] = top | (1ULL << (rest - 1));
        }
        unsigned shift = 53 - m;
        uint64_t half = 1ULL << (shift - 1);
        uint64_t keeps[3] = {0, (0x2AAAAAULL & ((1ULL << (m - 1)) - 1)),
                             ((1ULL << (m - 1)) - 1) ^ 1};
        for (unsigned q = 0; q < 3; q++) {
            out[k++] = (keeps[q] << shift) | half;
            out[k++] = (keeps[q] << shift) | (half - 1);
            out[k++] = (keeps[q] << shift) | (half + 1);
        }
    }
    return k;
}

void vf_sweep(vf_report *rep) {
    static const unsigned exps[9] = {0, 1, 2, 1022, 1023, 1024, 2045, 2046,
                                     2047};
    ctx c = {rep, 1};
    uint64_t evals = 0;
    uint64_t mant[80];
    size_t nm = sweep_mantissas(mant);

    /* the two publications of the bound must agree: 2^-23, 2^-10, 2^-4 */
    for (unsigned p = 1; p < 4 && !rep->violated; p++) {
        long double b;
        int m = published((varintFloatPrecision)p, &b);
        if (m != (int)MB[3 - p]) {
            vf_fail(rep, "float.bound.published", "value",
                    "varintFloatPrecisionMaxRelativeError(%s) = %Lg, the "
                    "header documents a %u-bit mantissa (2^-%u)",
                    PN[p], b, MB[3 - p], MB[3 - p]);
        }
    }

    /* every (sign, exponent class, mantissa class) element */
    size_t nall = 2 * 9 * nm;
    uint64_t *all = (uint64_t *)malloc(nall * sizeof(uint64_t));
    if (!all) {
        abort();
    }
    size_t k = 0;
    for (unsigned s = 0; s < 2; s++) {
        for (unsigned e = 0; e < 9; e++) {
            for (size_t q = 0; q < nm; q++) {
                all[k++] = mk(s, exps[e], mant[q]);
            }
        }
    }
    /* (a) alone, and all together, in every precision x mode */
    for (unsigned prec = 0; prec < 4 && !rep->violated; prec++) {
        for (unsigned mode = 0; mode < 3 && !rep->violated; mode++) {
            for (size_t i = 0; i < nall && !rep->violated; i++) {
                check_array(&c, &all[i], 1, prec, mode, 0, 0, (uint8_t)i);
                evals++;
            }
            if (!rep->violated) {
                check_array(&c, all, nall, prec, mode, 0, 0, 0xFF);
                evals++;
            }
        }
    }
    /* (b) pairs straddling the 8-bit exponent-delta boundary, both orders */
    {
        static const unsigned D[10] = {0,   1,   2,   254, 255,
                                       256, 257, 511, 512, 2045};
        static const uint64_t pm[3] = {0, FRAC_MASK, 0x3243F6A8885A3ULL};
        for (unsigned di = 0; di < 10 && !rep->violated; di++) {
            unsigned bases[3] = {1, (2046 - D[di]) / 2 + 1, 2046 - D[di]};
            for (unsigned bi = 0; bi < 3 && !rep->violated; bi++) {
                for (unsigned ma = 0; ma < 3; ma++) {
                    for (unsigned mb = 0; mb < 3; mb++) {
                        uint64_t pair[2][3];
                        uint64_t lo = mk(ma & 1, bases[bi], pm[ma]);
                        uint64_t hi = mk(mb & 1, bases[bi] + D[di], pm[mb]);
                        pair[0][0] = lo;
                        pair[0][1] = hi;
                        pair[0][2] = mk(0, 0, 0); /* a zero after them */
                        pair[1][0] = hi;
                        pair[1][1] = mk(1, 2047, 1); /* NaN in between */
                        pair[1][2] = lo;
                        for (unsigned o = 0; o < 2; o++) {
                            for (unsigned prec = 0; prec < 4; prec++) {
                                for (unsigned mode = 0;
                                     mode < 3 && !rep->violated; mode++) {
                                    check_array(&c, pair[o], 2 + o, prec, mode,
                                                0, 0, 0xA5);
                                    check_array(&c, pair[o], 3, prec, mode, 0,
                                                0, 0x00);
                                    evals += 2;
                                }
                            }
                        }
                    }
                }
            }
        }
    }
    /* (c) automatic selection: requests at and next to every threshold, the
     * whole element table in one array */
    for (unsigned t = 0; t < 7 && !rep->violated; t++) {
        double reqs[5] = {REQ_T[t], nextafter(REQ_T[t], 0.0),
                          nextafter(REQ_T[t], 1.0), REQ_T[t] * 0.75,
                          REQ_T[t] * 1.5};
        for (unsigned q = 0; q < 5 && !rep->violated; q++) {
            for (unsigned mode = 0; mode < 3 && !rep->violated; mode++) {
                check_array(&c, all, nall, 0, mode, 1, reqs[q], 0x5A);
                evals++;
            }
        }
    }
    /* (d) narrow-format data: 8 values inside the binary16 range that are
     * exactly representable with a k-bit significand (some using the last
     * bit, some not), alone per element, together, and with one full double
     * among them; every precision x mode, and automatic selection with
     * requests on both sides of 2^-k and 2^-(k-1) */
    for (unsigned ki = 1; ki < 16 && !rep->violated; ki++) {
        static const unsigned ex[8] = {1023, 1022, 1024, 1009,
                                       1038, 1030, 1015, 1023};
        static const uint64_t pat[8] = {
            0,
            FRAC_MASK,
            0x5555555555555ULL,
            0xAAAAAAAAAAAAAULL,
            0x3243F6A8885A3ULL,
            0xB7E151628AED2ULL,
            0x8000000000000ULL,
            0x6A09E667F3BCCULL};
        unsigned k = KTAB[ki];
        uint64_t arr[2][8];
        for (unsigned i = 0; i < 8; i++) {
            arr[0][i] = mk(i & 1, ex[i], narrow(pat[i], k, i != 0 && i != 6));
            arr[1][i] = arr[0][i];
        }
        arr[1][4] = mk(0, ex[4], pat[4] | 1);
        double reqs[9] = {ldexp(1.0, -(int)k),
                          nextafter(ldexp(1.0, -(int)k), 0.0),
                          nextafter(ldexp(1.0, -(int)k), 1.0),
                          ldexp(1.0, 1 - (int)k),
                          nextafter(ldexp(1.0, 1 - (int)k), 0.0),
                          ldexp(1.0, -(int)k - 1),
                          ldexp(1.5, -(int)k - 1),
                          1e-9,
                          0x1p-60};
        for (unsigned w = 0; w < 2 && !rep->violated; w++) {
            for (unsigned mode = 0; mode < 3 && !rep->violated; mode++) {
                for (unsigned prec = 0; prec < 4 && !rep->violated; prec++) {
                    check_array(&c, arr[w], 8, prec, mode, 0, 0, 0xA5);
                    evals++;
                }
                for (unsigned q = 0; q < 9 && !rep->violated; q++) {
                    check_array(&c, arr[w], 8, 0, mode, 1, clamp_req(reqs[q]),
                                0x5A);
                    evals++;
                    for (unsigned i = 0; i < 8 && w == 0 && mode == 0 &&
                                         !rep->violated;
                         i++) {
                        check_array(&c, &arr[0][i], 1, 0, mode, 1,
                                    clamp_req(reqs[q]), 0x00);
                        evals++;
                    }
                }
            }
        }
    }
    free(all);
    vf_evals(evals);
    vf_class_n("sweep.evals", evals);
}
