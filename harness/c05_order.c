/* C05 - tagged varints sort bytewise in numeric order.
 *
 * case layout:  head:1  then arity x { kind:1, a:u64, param:1, [b:u64 | nv:1] }
 *   head & 3        arity - 1 (tuples of 1..4 values)
 *   head & 4        encode with Put64FixedWidth(varintTaggedLen(v)) instead of
 *                   Put64 (both are the canonical encoding)
 *   kind % 8        0,1 equal          b = a
 *                   2   adjacent       b = a + 1
 *                   3   straddling     a = max(L) - x, b = max(L) + 1 + y
 *                                      (L, x, y from param; a:u64 is ignored)
 *                   4,5 one byte       b = a with one encoded byte replaced
 *                                      (byte index from param, new value nv),
 *                                      same length when still canonical
 *                   6,7 independent    b:u64
 *   kind & 0x80     swap a and b
 *
 * oracle: for every position sign(memcmp(enc(a), enc(b), min(la, lb))) ==
 * sign(a - b) and equal values have identical bytes; for the tuple,
 * sign(memcmp(concat(enc(a_i)), concat(enc(b_i)), min(LA, LB))) equals the
 * lexicographic comparison of the value tuples. */
#include "vf.h"
#include "vf_ref.h"

#include "varint.h"
#include "varintTagged.h"

const char *vf_prop_id = "C05";
const size_t vf_case_maxlen = 80;

/* SUMMARY table of the sqlite4 description */
static const uint64_t tagged_max[10] = {0,
                                        240ULL,
                                        2287ULL,
                                        67823ULL,
                                        16777215ULL,
                                        4294967295ULL,
                                        1099511627775ULL,
                                        281474976710655ULL,
                                        72057594037927935ULL,
                                        18446744073709551615ULL};

static int sgn(int x) {
    return x < 0 ? -1 : x > 0 ? 1 : 0;
}
static int cmp64(uint64_t a, uint64_t b) {
    return a < b ? -1 : a > b ? 1 : 0;
}

static void hex(char *o, size_t cap, const uint8_t *p, unsigned n) {
    size_t k = 0;
    o[0] = 0;
    for (unsigned i = 0; i < n && k + 3 < cap; i++) {
        k += (size_t)snprintf(o + k, cap - k, "%02x", p[i]);
    }
}

/* distance used by the "via add" entry points (set per case) */
static uint64_t g_add_d;
/* entry 1 through the key-building macros (varintTaggedLenQuick +
 * varintTaggedPut64FixedWidthQuick_) instead of the functions */
static int g_quick;

/* canonical tagged encoding through one of the library's entry points:
 *   0 Put64   1 Put64FixedWidth(varintTaggedLen(v))
 *   2 Put64(v - d) then varintTaggedAddGrow(+d)   (key reached by counting up)
 *   3 Put64(v + d) then varintTaggedAddGrow(-d)   (key reached by counting
 *     down, possibly shrinking across a length boundary)
 * A key that was produced by the in-place add is a tagged encoding of its
 * value like any other, so it must sort and compare the same way. */
static unsigned enc(uint8_t *dst, uint64_t v, int fixed) {
    memset(dst, 0xCC, 16);
    if (fixed == 1) {
        if (g_quick) {
            const varintWidth w = (varintWidth)varintTaggedLenQuick(v);
            varintTaggedPut64FixedWidthQuick_(dst, v, w);
            return w;
        }
        return varintTaggedPut64FixedWidth(dst, v, varintTaggedLen(v));
    }
    if (fixed >= 2 && v <= (uint64_t)INT64_MAX) {
        uint64_t d = g_add_d;
        if (fixed == 2 && d <= v) {
            varintTaggedPut64(dst, v - d);
            unsigned w = varintTaggedAddGrow(dst, (int64_t)d);
            if (w) {
                return w;
            }
        } else if (fixed == 3 && d <= (uint64_t)INT64_MAX - v) {
            varintTaggedPut64(dst, v + d);
            unsigned w = varintTaggedAddGrow(dst, -(int64_t)d);
            if (w) {
                return w;
            }
        }
        memset(dst, 0xCC, 16);
    }
    return varintTaggedPut64(dst, v);
}

/* one pair; returns 0 after a violation.  *onebyte is set when the two
 * encodings have equal length and differ in exactly one byte other than the
 * first (payload byte) */
static int check_pair(vf_report *rep, uint64_t a, uint64_t b, int fixed,
                      unsigned *pla, unsigned *plb, int *onebyte) {
    uint8_t ea[16], eb[16];
    /* in the via-add modes a is reached by an in-place add and b is written
     * directly, so equal values compare an add-produced key with a fresh one */
    unsigned la = enc(ea, a, fixed), lb = enc(eb, b, fixed >= 2 ? 0 : fixed);
    *pla = la;
    *plb = lb;
    *onebyte = 0;
    if (la < 1 || la > 9 || lb < 1 || lb > 9) {
        vf_fail(rep, "tagged.order", "range",
                "encoded lengths %u / %u outside 1..9 for %llu / %llu", la, lb,
                (unsigned long long)a, (unsigned long long)b);
        return 0;
    }
    unsigned m = la < lb ? la : lb;
    int c = sgn(memcmp(ea, eb, m));
    int want = cmp64(a, b);
    if (c != want) {
        char ha[24], hb[24];
        hex(ha, sizeof(ha), ea, la);
        hex(hb, sizeof(hb), eb, lb);
        vf_fail(rep, "tagged.order", "order",
                "a=%llu encodes as %s, b=%llu as %s: memcmp over %u bytes "
                "gives %d but a %s b",
                (unsigned long long)a, ha, (unsigned long long)b, hb, m, c,
                want < 0 ? "<" : want > 0 ? ">" : "==");
        return 0;
    }
    if (a == b && (la != lb || memcmp(ea, eb, la) != 0)) {
        char ha[24], hb[24];
        hex(ha, sizeof(ha), ea, la);
        hex(hb, sizeof(hb), eb, lb);
        vf_fail(rep, "tagged.equal", "bytes",
                "equal values %llu encode differently: %s vs %s",
                (unsigned long long)a, ha, hb);
        return 0;
    }
    if (a != b && la == lb) {
        unsigned nd = 0, first = 0;
        for (unsigned i = 0; i < la; i++) {
            if (ea[i] != eb[i]) {
                if (!nd) {
                    first = i;
                }
                nd++;
            }
        }
        *onebyte = nd == 1 && first >= 1;
    }
    return 1;
}

/* composite keys: concatenated encodings against the lexicographic order of
 * the value tuples; returns 0 after a violation */
static int check_tuple(vf_report *rep, const uint64_t *ta, const uint64_t *tb,
                       unsigned arity, int fixed, int classes) {
    uint8_t ca[48], cb[48];
    unsigned LA = 0, LB = 0;
    for (unsigned i = 0; i < arity; i++) {
        LA += enc(ca + LA, ta[i], fixed);
        LB += enc(cb + LB, tb[i], fixed >= 2 ? 0 : fixed);
        if (LA > 36 || LB > 36) {
            vf_fail(rep, "tagged.tuple", "range",
                    "concatenation of %u keys is %u / %u bytes long", i + 1, LA,
                    LB);
            return 0;
        }
    }
    int want = 0;
    unsigned firstdiff = arity;
    for (unsigned i = 0; i < arity && !want; i++) {
        want = cmp64(ta[i], tb[i]);
        if (want) {
            firstdiff = i;
        }
    }
    unsigned m = LA < LB ? LA : LB;
    int c = sgn(memcmp(ca, cb, m));
    if (c != want || (want == 0 && (LA != LB))) {
        char ha[80], hb[80];
        hex(ha, sizeof(ha), ca, LA);
        hex(hb, sizeof(hb), cb, LB);
        vf_fail(rep, "tagged.tuple", "order",
                "tuples of %u values first differ at position %u "
                "(lexicographic order %d) but memcmp of the concatenated "
                "keys %s / %s over %u bytes gives %d",
                arity, firstdiff, want, ha, hb, m, c);
        return 0;
    }
    if (classes) {
        char cls[48];
        snprintf(cls, sizeof(cls), "tuple.arity%u.%s", arity,
                 firstdiff == arity ? "equal"
                 : firstdiff == 0   ? "first"
                                    : "later");
        vf_class(cls);
    }
    return 1;
}

void vf_run(vf_rd *r, vf_report *rep) {
    unsigned head = vf_u8(r);
    unsigned arity = 1 + (head & 3);
    int fixed = (head >> 2) & 3;
    {
        /* distance for the via-add entry points: small, or large enough to
         * cross one or several length boundaries */
        static const uint64_t dd[4] = {1, 241, 70000, 1ULL << 33};
        g_add_d = dd[(head >> 4) & 3] + ((head >> 6) & 3);
    }
    g_quick = fixed == 1 && ((head >> 4) & 1);
    if (g_quick) {
        vf_class("entry.quick-macros");
    }
    uint64_t ta[4], tb[4];
    int nontriv = 0;
    uint64_t h = vf_mix(arity, (uint64_t)fixed + 4 * (uint64_t)g_quick);
    vf_desc(rep, "arity=%u entry=%s", arity,
            fixed == 0   ? "Put64"
            : fixed == 1 ? (g_quick ? "LenQuick+Put64FixedWidthQuick_"
                                    : "Put64FixedWidth")
            : fixed == 2 ? "Put64+AddGrow(+d)"
                         : "Put64+AddGrow(-d)");
    for (unsigned i = 0; i < arity; i++) {
        unsigned kb = vf_u8(r);
        unsigned kind = kb & 7;
        uint64_t a = vf_u64(r);
        unsigned param = vf_u8(r);
        uint64_t b = a;
        const char *kname = "equal";
        switch (kind) {
        case 0:
        case 1:
            break;
        case 2:
            kname = "adjacent";
            b = a + 1;
            break;
        case 3: {
            kname = "straddle";
            unsigned L = 1 + param % 8; /* boundary between L and L+1 bytes */
            unsigned x = (param >> 3) & 3, y = (param >> 5) & 3;
            if ((param >> 7) & 1) {
                /* further away, still inside the neighbouring length classes */
                x *= 61;
                y *= 53;
            }
            a = tagged_max[L] - x;
            b = tagged_max[L] + 1 + y;
            break;
        }
        case 4:
        case 5: {
            kname = "onebyte";
            /* replace one byte of the documented encoding of a and decode */
            uint8_t e[16];
            memset(e, 0, sizeof(e));
            unsigned l = vf_ref_encode(VF_TAGGED, a, e);
            uint8_t nv = vf_u8(r);
            unsigned idx = l == 1 ? 0 : 1 + param % (l - 1);
            if (idx == 0) {
                /* single-byte form: any other value 0..240 */
                b = nv % 241;
            } else {
                e[idx] = nv;
                uint64_t d = a;
                vf_ref_decode(VF_TAGGED, e, 0, &d);
                b = d;
            }
            break;
        }
        default:
            kname = "independent";
            b = vf_u64(r);
            break;
        }
        if (kb & 0x80) {
            uint64_t t = a;
            a = b;
            b = t;
        }
        ta[i] = a;
        tb[i] = b;
        unsigned la, lb;
        int onebyte;
        vf_desc(rep, " {%s a=%llu b=%llu}", kname, (unsigned long long)a,
                (unsigned long long)b);
        if (!check_pair(rep, a, b, fixed, &la, &lb, &onebyte)) {
            return;
        }
        if (i > 0) {
            vf_evals(1);
        }
        /* classes (names are built once) */
        {
            static char pcls[5][24], lcls[10][10][24], scls[10][2][28];
            unsigned ki = kind <= 1 ? 0 : kind == 2 ? 1 : kind == 3 ? 2
                          : kind <= 5 ? 3 : 4;
            if (!pcls[ki][0]) {
                snprintf(pcls[ki], sizeof(pcls[ki]), "pair.%s", kname);
            }
            vf_class(pcls[ki]);
            if (a != b) {
                if (la != lb) {
                    unsigned lo = la < lb ? la : lb, hi = la < lb ? lb : la;
                    if (!lcls[lo][hi][0]) {
                        snprintf(lcls[lo][hi], sizeof(lcls[lo][hi]),
                                 "lengths.%u-%u", lo, hi);
                    }
                    vf_class(lcls[lo][hi]);
                    if ((a < b ? b - a : a - b) == 1) {
                        vf_class("boundary.adjacent");
                    }
                } else {
                    if (!scls[la][onebyte][0]) {
                        snprintf(scls[la][onebyte], sizeof(scls[la][onebyte]),
                                 "samelen.%u%s", la, onebyte ? ".onebyte" : "");
                    }
                    vf_class(scls[la][onebyte]);
                }
                if (la != lb || onebyte) {
                    nontriv = 1;
                }
            }
        }
        h = vf_mix(vf_mix(h, a), b);
    }
    if (arity > 1) {
        if (!check_tuple(rep, ta, tb, arity, fixed, 1)) {
            return;
        }
        vf_evals(1);
    }
    if (nontriv) {
        vf_nontrivial(h);
    }
}

/* deterministic sweep: every value within +-300 of every table boundary
 * against its successor, against the boundary itself and against the value one
 * length class up, both argument orders, both entry points; composite keys with
 * an equal first component at every pair of length-class edges */
void vf_sweep(vf_report *rep) {
    size_t nb;
    g_quick = 0;
    const uint64_t *b = vf_boundaries(&nb);
    uint64_t evals = 0;
    unsigned la, lb;
    int ob;
    for (size_t i = 0; i < nb && !rep->violated; i++) {
        for (int d = -300; d <= 300 && !rep->violated; d++) {
            uint64_t v = b[i] + (uint64_t)(int64_t)d;
            for (int pass = 0; pass < 3 && !rep->violated; pass++) {
                /* Put64, Put64FixedWidth, the quick macros */
                const int fixed = pass ? 1 : 0;
                g_quick = pass == 2;
                if (!check_pair(rep, v, v, fixed, &la, &lb, &ob) ||
                    !check_pair(rep, v, v + 1, fixed, &la, &lb, &ob) ||
                    !check_pair(rep, v + 1, v, fixed, &la, &lb, &ob) ||
                    !check_pair(rep, v, b[i], fixed, &la, &lb, &ob) ||
                    !check_pair(rep, b[i], v, fixed, &la, &lb, &ob) ||
                    !check_pair(rep, v, v << 8, fixed, &la, &lb, &ob) ||
                    !check_pair(rep, v, v ^ 0x100, fixed, &la, &lb, &ob) ||
                    !check_pair(rep, v, v ^ 0x10000, fixed, &la, &lb, &ob) ||
                    !check_pair(rep, v, v ^ (1ULL << 40), fixed, &la, &lb,
                                &ob)) {
                    break;
                }
                evals += 9;
            }
        }
    }
    g_quick = 0;
    /* every pair of length-class maxima and their successors */
    for (unsigned L = 1; L <= 9 && !rep->violated; L++) {
        for (unsigned M = 1; M <= 9 && !rep->violated; M++) {
            for (int da = -1; da <= 1 && !rep->violated; da++) {
                for (int db = -1; db <= 1 && !rep->violated; db++) {
                    uint64_t x = tagged_max[L] + (uint64_t)(int64_t)da;
                    uint64_t y = tagged_max[M] + (uint64_t)(int64_t)db;
                    check_pair(rep, x, y, 0, &la, &lb, &ob);
                    evals++;
                }
            }
        }
    }
    /* composite keys: (k, v) against (k, v+1), (k+1, 0), (k, v, 0) vs
     * (k, v+1, 0) for keys and values at every length-class edge */
    for (unsigned L = 1; L <= 9 && !rep->violated; L++) {
        for (unsigned M = 1; M <= 9 && !rep->violated; M++) {
            for (int dk = -1; dk <= 1 && !rep->violated; dk++) {
                for (int dv = -1; dv <= 1 && !rep->violated; dv++) {
                    uint64_t k = tagged_max[L] + (uint64_t)(int64_t)dk;
                    uint64_t v = tagged_max[M] + (uint64_t)(int64_t)dv;
                    uint64_t t0[4] = {k, v, 0, 0};
                    uint64_t t1[4] = {k, v + 1, 0, 0};
                    uint64_t t2[4] = {k + 1, 0, 0, 0};
                    uint64_t t3[4] = {k, v, UINT64_MAX, 1};
                    for (int fixed = 0; fixed < 2; fixed++) {
                        if (!check_tuple(rep, t0, t1, 2, fixed, 0) ||
                            !check_tuple(rep, t1, t0, 2, fixed, 0) ||
                            !check_tuple(rep, t0, t2, 2, fixed, 0) ||
                            !check_tuple(rep, t2, t0, 2, fixed, 0) ||
                            !check_tuple(rep, t0, t0, 2, fixed, 0) ||
                            !check_tuple(rep, t0, t1, 3, fixed, 0) ||
                            !check_tuple(rep, t3, t0, 4, fixed, 0) ||
                            !check_tuple(rep, t0, t3, 4, fixed, 0)) {
                            break;
                        }
                        evals += 8;
                    }
                }
            }
        }
    }
    vf_evals(evals);
    vf_class_n("sweep.evals", evals);
}
