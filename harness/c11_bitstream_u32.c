/* C11 instantiation: 32-bit words and values, configured as in
 * docs/modules/varintBitstream.md ("Type Configuration") */
#include <stdint.h>
#define VBITS uint32_t
#define VBITSVAL uint32_t
#define C11_TAG u32
#define C11_BITS 32
#define C11_SIGNED int32_t
#include "c11_bitstream_inst.h"
