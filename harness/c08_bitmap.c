/* C08 - the bitmap behaves as a set of 16-bit integers under any history.
 *
 * Stateful, model based.  4 bitmap slots, each paired with a 65536-bit
 * reference set.  A case is a sequence of 1..200 fixed-width records
 *
 *     op:1 slot:1 a:2 b:2            (6 bytes, little endian)
 *
 *   op   % 14 : add, remove, addRange, removeRange, clear, clone, addMany,
 *               or, and, xor, andNot, serialise->deserialise, burst-add,
 *               burst-remove
 *   slot      : bits 0-1 destination, bits 2-3 first source, bits 4-5 second
 *               source (clone / binary operations; sources may coincide with
 *               each other and with the destination)
 *   a, b      : add/remove: value = a.
 *               ranges: min = a, length from b (b&15: 0 -> b>>4, 1..9 -> the
 *               table {1,100,4000,4095,4096,4097,5000,30000,65535}, 10 ->
 *               4088..4103, else b itself); min is moved down so that the
 *               half-open range ends at <= 65535 (the API takes uint16_t
 *               bounds, so an exclusive bound of 65536 is not expressible and
 *               65535 can only become a member through add / addMany / burst).
 *               addMany: base a, b = count class | shape | stride | seed.
 *               burst: an arithmetic progression (start from a, stride 1..8,
 *               count class) added / removed one element at a time, optionally
 *               stopping when the cardinality reaches 4095/4096/4097, or
 *               walking the (non-)members of the current set so that every
 *               call changes the set.
 *
 * Oracle after every record: see DESIGN.md section 3 / C08.  The container type
 * (GetStats) is read for the class counters only. */
#include "vf.h"

#include "varintBitmap.h"

const char *vf_prop_id = "C08";
const size_t vf_case_maxlen = 1200;

#define NSLOT 4
#define MAXREC 200
#define RECLEN 6
#define UNIVERSE 65536u

/* ------------------------------------------------------------------- model */
typedef struct model {
    uint64_t w[UNIVERSE / 64];
    uint32_t card;
} model;

static inline bool m_has(const model *m, uint32_t v) {
    return (m->w[v >> 6] >> (v & 63)) & 1;
}
static inline bool m_add(model *m, uint32_t v) {
    uint64_t bit = 1ULL << (v & 63);
    if (m->w[v >> 6] & bit) {
        return false;
    }
    m->w[v >> 6] |= bit;
    m->card++;
    return true;
}
static inline bool m_del(model *m, uint32_t v) {
    uint64_t bit = 1ULL << (v & 63);
    if (!(m->w[v >> 6] & bit)) {
        return false;
    }
    m->w[v >> 6] &= ~bit;
    m->card--;
    return true;
}
static void m_clear(model *m) {
    memset(m, 0, sizeof(*m));
}
static void m_recount(model *m) {
    uint32_t n = 0;
    for (size_t i = 0; i < UNIVERSE / 64; i++) {
        n += (uint32_t)__builtin_popcountll(m->w[i]);
    }
    m->card = n;
}
/* ascending member list; returns the count */
static uint32_t m_list(const model *m, uint16_t *out) {
    uint32_t n = 0;
    for (uint32_t i = 0; i < UNIVERSE / 64; i++) {
        uint64_t x = m->w[i];
        while (x) {
            unsigned b = (unsigned)__builtin_ctzll(x);
            out[n++] = (uint16_t)(i * 64 + b);
            x &= x - 1;
        }
    }
    return n;
}
/* first v >= from (wrapping around once) whose membership equals `want`;
 * -1 if there is none */
static int32_t m_next(const model *m, uint32_t from, bool want) {
    for (uint32_t k = 0; k < UNIVERSE;) {
        uint32_t v = (from + k) & 0xffff;
        if ((v & 63) == 0 && k + 64 <= UNIVERSE) {
            uint64_t x = m->w[v >> 6];
            if (!want) {
                x = ~x;
            }
            if (x == 0) {
                k += 64;
                continue;
            }
        }
        if (m_has(m, v) == want) {
            return (int32_t)v;
        }
        k++;
    }
    return -1;
}

/* ----------------------------------------------------------------- records */
enum {
    OP_ADD,
    OP_REMOVE,
    OP_ADDRANGE,
    OP_REMOVERANGE,
    OP_CLEAR,
    OP_CLONE,
    OP_ADDMANY,
    OP_OR,
    OP_AND,
    OP_XOR,
    OP_ANDNOT,
    OP_SERDES,
    OP_BURST_ADD,
    OP_BURST_REMOVE,
    OP_COUNT
};
static const char *const OPNAME[OP_COUNT] = {
    "add",  "remove", "addRange", "removeRange", "clear",    "clone",
    "addMany", "or",  "and",      "xor",         "andNot",   "serdes",
    "burstAdd", "burstRemove"};

enum { SH_ASC, SH_DESC, SH_RANDOM, SH_DUPS };

typedef struct rec {
    uint8_t op, dst, s1, s2;
    uint32_t x, y;    /* add/remove: x; ranges: [x, y); addMany/burst: x = base */
    uint32_t n;       /* addMany: count; burst: count limit */
    uint32_t stride;  /* addMany / burst */
    uint32_t shape;   /* addMany */
    uint32_t target;  /* burst: stop when the cardinality equals it (0 = none) */
    uint32_t walk;    /* burst: walk the (non-)members instead */
    uint32_t seed;    /* addMany SH_RANDOM / SH_DUPS */
    uint32_t stripes; /* burst: each element is a range of `slen` values */
    uint32_t slen;    /* stripes: length of each range */
    uint32_t sfirst;  /* stripes: length of the first range (0 = slen) */
    uint32_t sclear;  /* stripes: clear the slot first */
} rec;

static const uint16_t LEN_TBL[9] = {1,    100,  4000,  4095, 4096,
                                    4097, 5000, 30000, 65535};
static const uint16_t MANY_TBL[8] = {1, 2, 5, 16, 17, 100, 1000, 5000};
static const uint16_t BURST_TBL[16] = {1,    2,    16,   100,  1000, 3000,
                                       4000, 4095, 4096, 4097, 4100, 4200,
                                       5000, 8000, 8191, 64};

static void decode_rec(rec *r, uint8_t op, uint8_t slot, uint16_t a,
                       uint16_t b) {
    memset(r, 0, sizeof(*r));
    r->op = op % OP_COUNT;
    r->dst = slot & 3;
    r->s1 = (slot >> 2) & 3;
    r->s2 = (slot >> 4) & 3;
    switch (r->op) {
    case OP_ADD:
    case OP_REMOVE:
        r->x = a;
        break;
    case OP_ADDRANGE:
    case OP_REMOVERANGE: {
        unsigned sel = b & 15;
        uint32_t len;
        if (sel == 0) {
            len = b >> 4;
        } else if (sel <= 9) {
            len = LEN_TBL[sel - 1];
        } else if (sel == 10) {
            len = 4088 + ((b >> 4) & 15);
        } else {
            len = b;
        }
        uint32_t min = a;
        if (min + len > 65535) {
            min = 65535 - len;
        }
        r->x = min;
        r->y = min + len;
        break;
    }
    case OP_ADDMANY:
        r->x = a;
        r->n = MANY_TBL[b & 7];
        r->shape = (b >> 3) & 3;
        r->stride = 1 + ((b >> 5) & 15);
        r->seed = (uint32_t)(b >> 9) * 0x10001u + a + 1;
        break;
    case OP_BURST_ADD:
    case OP_BURST_REMOVE:
        r->x = (a & 1) ? a : (uint32_t)(((a >> 1) & 3) << 14);
        r->stride = 1 + (b & 7);
        r->n = BURST_TBL[(b >> 3) & 15];
        r->target = ((b >> 7) & 3) ? 4094 + ((b >> 7) & 3) : 0;
        r->walk = (b >> 9) & 1;
        if ((b >> 10) & 1) {
            /* striped ranges: an arithmetic progression of RANGES (ascending,
             * with gaps unless stride == 1), optionally starting with a long
             * range on a cleared set - the history that builds containers of
             * many runs */
            static const uint16_t SLEN[8] = {1, 2, 3, 8, 50, 300, 1000, 4097};
            r->stripes = 1;
            r->walk = 0;
            r->target = 0;
            r->slen = SLEN[(b >> 11) & 7];
            r->sfirst = ((b >> 14) & 1) ? 4097 + (a & 1023) : 0;
            r->sclear = (b >> 15) & 1;
            if (r->n > 48) {
                r->n = 48;
            }
        }
        break;
    default:
        break;
    }
}

static uint64_t rec_hash(uint64_t h, const rec *r) {
    h = vf_mix(h, (uint64_t)r->op | ((uint64_t)r->dst << 8) |
                      ((uint64_t)r->s1 << 16) | ((uint64_t)r->s2 << 24));
    h = vf_mix(h, ((uint64_t)r->x << 32) | r->y);
    h = vf_mix(h, ((uint64_t)r->n << 32) | (r->stride << 16) | (r->shape << 8) |
                      (r->walk << 4));
    h = vf_mix(h, ((uint64_t)r->target << 32) | r->seed);
    h = vf_mix(h, ((uint64_t)r->stripes << 48) | ((uint64_t)r->slen << 32) |
                      ((uint64_t)r->sfirst << 8) | r->sclear);
    return h;
}

static void rec_desc(vf_report *rep, const rec *r) {
    switch (r->op) {
    case OP_ADD:
    case OP_REMOVE:
        vf_desc(rep, "%s s%u %u; ", OPNAME[r->op], r->dst, r->x);
        break;
    case OP_ADDRANGE:
    case OP_REMOVERANGE:
        vf_desc(rep, "%s s%u [%u,%u); ", OPNAME[r->op], r->dst, r->x, r->y);
        break;
    case OP_CLEAR:
    case OP_SERDES:
        vf_desc(rep, "%s s%u; ", OPNAME[r->op], r->dst);
        break;
    case OP_CLONE:
        vf_desc(rep, "s%u=clone s%u; ", r->dst, r->s1);
        break;
    case OP_ADDMANY:
        vf_desc(rep, "addMany s%u n=%u shape=%u base=%u stride=%u seed=%u; ",
                r->dst, r->n, r->shape, r->x, r->stride, r->seed);
        break;
    case OP_OR:
    case OP_AND:
    case OP_XOR:
    case OP_ANDNOT:
        vf_desc(rep, "s%u=%s(s%u,s%u); ", r->dst, OPNAME[r->op], r->s1, r->s2);
        break;
    default:
        if (r->stripes) {
            vf_desc(rep, "%s s%u stripes start=%u len=%u first=%u gap=%u n=%u%s; ",
                    OPNAME[r->op], r->dst, r->x & 0x3fff, r->slen, r->sfirst,
                    r->stride - 1, r->n, r->sclear ? " clearFirst" : "");
            break;
        }
        vf_desc(rep, "%s s%u start=%u stride=%u n=%u target=%u walk=%u; ",
                OPNAME[r->op], r->dst, r->x, r->stride, r->n, r->target,
                r->walk);
        break;
    }
}

/* ----------------------------------------------------------------- context */
enum {
    F_CROSS_UP = 1,
    F_CROSS_DOWN = 2,
    F_RUNS = 4,
    F_MUT_AFTER_DESER = 8,
    F_BINOP_NONARRAY = 16,
};

typedef struct ctx {
    vf_report *rep;
    varintBitmap *vb[NSLOT];
    model m[NSLOT];
    bool deser[NSLOT];
    unsigned recno;
    unsigned nrec;
    unsigned executed;
    int exhaustive; /* sweep: test contains() on all 65536 values */
    unsigned flags; /* F_* observed in this history */
    /* per-case class counters, flushed once */
    uint32_t nOp[OP_COUNT];
    uint32_t nType[3];
    uint32_t nTrans[3][3];
    uint32_t nDeser[3];
    uint32_t nCrossUp, nCrossDown;
    uint32_t nStep[4]; /* 4095>4096, 4096>4097, 4097>4096, 4096>4095 */
    uint32_t nMutAfterDeser, nBinNonArray, nBinRuns, nBinBitmap, nBinSame,
        nBinAliasDst, nLongNonEmpty, nLongEmpty, nFull, nLongRemove;
} ctx;

static ctx C;
static uint16_t g_members[UNIVERSE];

#define FAILF(c, site, kind, ...) vf_fail((c)->rep, site, kind, __VA_ARGS__)

static const char *type_name(unsigned t) {
    return t == VARINT_BITMAP_ARRAY    ? "ARRAY"
           : t == VARINT_BITMAP_BITMAP ? "BITMAP"
           : t == VARINT_BITMAP_RUNS   ? "RUNS"
                                       : "?";
}

/* container type, for classification only */
static unsigned slot_type(const ctx *c, unsigned s) {
    varintBitmapStats st;
    memset(&st, 0, sizeof(st));
    varintBitmapGetStats(c->vb[s], &st);
    return (unsigned)st.type <= 2 ? (unsigned)st.type : 0;
}

/* ------------------------------------------------------------------ checks */
static int check_card(ctx *c, unsigned s, const char *after) {
    uint32_t got = varintBitmapCardinality(c->vb[s]);
    if (got != c->m[s].card) {
        return FAILF(c, "cardinality", "count",
                     "record %u (%s): slot %u cardinality %u, model %u "
                     "(container %s)",
                     c->recno, after, s, got, c->m[s].card,
                     type_name(slot_type(c, s)));
    }
    bool e = varintBitmapIsEmpty(c->vb[s]);
    if (e != (c->m[s].card == 0)) {
        return FAILF(c, "isempty", "value",
                     "record %u (%s): slot %u IsEmpty=%d, model cardinality %u",
                     c->recno, after, s, (int)e, c->m[s].card);
    }
    return 0;
}

static int check_contains(ctx *c, unsigned s, int64_t v, const char *after) {
    if (v < 0 || v > 65535) {
        return 0;
    }
    bool got = varintBitmapContains(c->vb[s], (uint16_t)v);
    bool want = m_has(&c->m[s], (uint32_t)v);
    if (got != want) {
        return FAILF(c, "contains", "value",
                     "record %u (%s): slot %u Contains(%u)=%d, model %d "
                     "(cardinality %u, container %s)",
                     c->recno, after, s, (unsigned)v, (int)got, (int)want,
                     c->m[s].card, type_name(slot_type(c, s)));
    }
    return 0;
}

/* iterator and/or ToArray strictly ascending and equal to the model.  Both
 * walk the whole container (65536 steps for a BITMAP container), so the
 * whole-object operations, which are compared after every record, use one of
 * the two in turn; the regular cadence uses both. */
enum { FULL_ITER = 1, FULL_TOARRAY = 2, FULL_BOTH = 3 };

static int check_full(ctx *c, unsigned s, const char *site, const char *after,
                      unsigned how) {
    const varintBitmap *vb = c->vb[s];
    uint32_t n = m_list(&c->m[s], g_members);
    c->nFull++;
    varintBitmapIterator it = varintBitmapCreateIterator(vb);
    uint32_t k = 0;
    int32_t prev = -1;
    while ((how & FULL_ITER) && varintBitmapIteratorNext(&it)) {
        uint32_t v = it.currentValue;
        if ((int32_t)v <= prev) {
            return FAILF(c, site, "order",
                         "record %u (%s): slot %u iterator element #%u = %u "
                         "after %d: not strictly ascending (container %s)",
                         c->recno, after, s, k, v, prev,
                         type_name(slot_type(c, s)));
        }
        if (k >= n) {
            return FAILF(c, site, "count",
                         "record %u (%s): slot %u iterator yields element #%u "
                         "= %u but the model has only %u members (container "
                         "%s)",
                         c->recno, after, s, k, v, n,
                         type_name(slot_type(c, s)));
        }
        if (v != g_members[k]) {
            return FAILF(c, site, "value",
                         "record %u (%s): slot %u iterator element #%u = %u, "
                         "model %u (cardinality %u, container %s)",
                         c->recno, after, s, k, v, (unsigned)g_members[k], n,
                         type_name(slot_type(c, s)));
        }
        prev = (int32_t)v;
        k++;
    }
    if ((how & FULL_ITER) && k != n) {
        return FAILF(c, site, "count",
                     "record %u (%s): slot %u iterator stopped after %u "
                     "elements, model has %u (next missing member %u, "
                     "container %s)",
                     c->recno, after, s, k, n, (unsigned)g_members[k],
                     type_name(slot_type(c, s)));
    }
    if (!(how & FULL_TOARRAY)) {
        return 0;
    }
    /* ToArray into a buffer of exactly cardinality elements */
    uint16_t *out = (uint16_t *)vf_exact_alloc((size_t)n * sizeof(uint16_t));
    memset(out, 0xEE, (size_t)n * sizeof(uint16_t));
    uint32_t cnt = varintBitmapToArray(vb, out);
    int bad = 0;
    size_t dmg = vf_exact_check(out);
    if (dmg) {
        bad = FAILF(c, "toarray", "canary",
                    "record %u (%s): slot %u ToArray wrote past the %u "
                    "elements the cardinality announces",
                    c->recno, after, s, n);
    } else if (cnt != n) {
        bad = FAILF(c, "toarray", "count",
                    "record %u (%s): slot %u ToArray returned %u, model has %u",
                    c->recno, after, s, cnt, n);
    } else {
        for (uint32_t i = 0; i < n; i++) {
            if (out[i] != g_members[i]) {
                bad = FAILF(c, "toarray", "value",
                            "record %u (%s): slot %u ToArray[%u] = %u, model "
                            "%u (cardinality %u)",
                            c->recno, after, s, i, (unsigned)out[i],
                            (unsigned)g_members[i], n);
                break;
            }
        }
    }
    vf_exact_free(out);
    return bad;
}

static int check_all_contains(ctx *c, unsigned s, const char *after) {
    for (uint32_t v = 0; v < UNIVERSE; v++) {
        if (check_contains(c, s, v, after)) {
            return 1;
        }
    }
    return 0;
}

static void note_step(ctx *c, bool add, uint32_t newcard) {
    if (add) {
        if (newcard == 4096) {
            c->nStep[0]++;
        } else if (newcard == 4097) {
            c->nStep[1]++;
        }
    } else {
        if (newcard == 4096) {
            c->nStep[2]++;
        } else if (newcard == 4095) {
            c->nStep[3]++;
        }
    }
}

/* one Add/Remove call with the "changed?" oracle */
static int step_one(ctx *c, unsigned s, bool add, uint32_t v,
                    const char *after) {
    model *m = &c->m[s];
    bool want = add ? m_add(m, v) : m_del(m, v);
    bool got = add ? varintBitmapAdd(c->vb[s], (uint16_t)v)
                   : varintBitmapRemove(c->vb[s], (uint16_t)v);
    if (got != want) {
        return FAILF(c, add ? "add.return" : "remove.return", "value",
                     "record %u (%s): slot %u %s(%u) returned %d, model says "
                     "changed=%d (model cardinality now %u, container %s)",
                     c->recno, after, s, add ? "Add" : "Remove", v, (int)got,
                     (int)want, m->card, type_name(slot_type(c, s)));
    }
    if (want) {
        note_step(c, add, m->card);
    }
    return 0;
}

/* ------------------------------------------------------------------ apply */
static void many_values(const rec *r, uint16_t *vals) {
    uint64_t s = ((uint64_t)r->seed << 1) | 1;
    for (uint32_t i = 0; i < r->n; i++) {
        uint32_t v;
        switch (r->shape) {
        case SH_ASC:
            v = r->x + i * r->stride;
            break;
        case SH_DESC:
            v = r->x - i * r->stride;
            break;
        case SH_RANDOM:
            v = (uint32_t)(vf_xs(&s) >> 24);
            break;
        default:
            v = r->x + (uint32_t)((vf_xs(&s) >> 24) & 7) * r->stride;
            break;
        }
        vals[i] = (uint16_t)v;
    }
}

static void mark_mutation(ctx *c, unsigned s) {
    if (c->deser[s]) {
        c->nMutAfterDeser++;
        c->flags |= F_MUT_AFTER_DESER;
    }
}

/* replace the object in slot `s` (the old one is owned by the harness) */
static void slot_replace(ctx *c, unsigned s, varintBitmap *nv) {
    varintBitmapFree(c->vb[s]);
    c->vb[s] = nv;
}

static int apply(ctx *c, const rec *r) {
    const char *after = OPNAME[r->op];
    unsigned d = r->dst;
    model *md = &c->m[d];
    uint32_t cardBefore = md->card;
    unsigned typeBefore = slot_type(c, d);
    int inplace = 1;
    int forceFull = 0;
    /* which of the two whole-container walks the extra comparisons use */
    unsigned alt = c->exhaustive     ? FULL_BOTH
                   : (c->recno & 1) ? FULL_ITER
                                    : FULL_TOARRAY;
    unsigned dstHow = c->exhaustive ? FULL_BOTH : (alt ^ FULL_BOTH);
    int64_t nb[16];
    unsigned nnb = 0;
    nb[nnb++] = 0;
    nb[nnb++] = 65535;

    c->nOp[r->op]++;
    switch (r->op) {
    case OP_ADD:
    case OP_REMOVE:
        mark_mutation(c, d);
        if (step_one(c, d, r->op == OP_ADD, r->x, after)) {
            return 1;
        }
        nb[nnb++] = (int64_t)r->x - 1;
        nb[nnb++] = r->x;
        nb[nnb++] = (int64_t)r->x + 1;
        break;

    case OP_ADDRANGE:
    case OP_REMOVERANGE: {
        bool add = r->op == OP_ADDRANGE;
        mark_mutation(c, d);
        if (r->y - r->x > 4096) {
            if (!add) {
                c->nLongRemove++;
            } else if (cardBefore) {
                c->nLongNonEmpty++;
            } else {
                c->nLongEmpty++;
            }
        }
        if (add) {
            varintBitmapAddRange(c->vb[d], (uint16_t)r->x, (uint16_t)r->y);
        } else {
            varintBitmapRemoveRange(c->vb[d], (uint16_t)r->x, (uint16_t)r->y);
        }
        for (uint32_t v = r->x; v < r->y; v++) {
            if (add) {
                m_add(md, v);
            } else {
                m_del(md, v);
            }
        }
        nb[nnb++] = (int64_t)r->x - 1;
        nb[nnb++] = r->x;
        nb[nnb++] = (int64_t)r->x + 1;
        nb[nnb++] = (int64_t)r->y - 2;
        nb[nnb++] = (int64_t)r->y - 1;
        nb[nnb++] = r->y;
        nb[nnb++] = (int64_t)r->y + 1;
        nb[nnb++] = ((int64_t)r->x + r->y) / 2;
        break;
    }

    case OP_CLEAR:
        varintBitmapClear(c->vb[d]);
        m_clear(md);
        /* a cleared container keeps its type; what follows is no longer
         * "after a deserialise" in any interesting sense, but the object is
         * still the decoded one: keep the flag */
        break;

    case OP_CLONE: {
        varintBitmap *nv = varintBitmapClone(c->vb[r->s1]);
        if (!nv) {
            return FAILF(c, "clone", "null",
                         "record %u: Clone(slot %u) returned NULL", c->recno,
                         r->s1);
        }
        model tmp = c->m[r->s1];
        slot_replace(c, d, nv);
        *md = tmp;
        c->deser[d] = false;
        inplace = 0;
        forceFull = 1;
        /* the source must be unchanged */
        if (r->s1 != d && (check_card(c, r->s1, "clone source") ||
                           check_full(c, r->s1, "clone.source", after, FULL_TOARRAY))) {
            return 1;
        }
        break;
    }

    case OP_ADDMANY: {
        mark_mutation(c, d);
        uint16_t *vals =
            (uint16_t *)vf_exact_alloc((size_t)r->n * sizeof(uint16_t));
        many_values(r, vals);
        varintBitmapAddMany(c->vb[d], vals, r->n);
        for (uint32_t i = 0; i < r->n; i++) {
            m_add(md, vals[i]);
        }
        nb[nnb++] = (int64_t)vals[0] - 1;
        nb[nnb++] = vals[0];
        nb[nnb++] = (int64_t)vals[0] + 1;
        nb[nnb++] = (int64_t)vals[r->n - 1] - 1;
        nb[nnb++] = vals[r->n - 1];
        nb[nnb++] = (int64_t)vals[r->n - 1] + 1;
        nb[nnb++] = vals[r->n / 2];
        vf_exact_free(vals);
        break;
    }

    case OP_OR:
    case OP_AND:
    case OP_XOR:
    case OP_ANDNOT: {
        const varintBitmap *p = c->vb[r->s1], *q = c->vb[r->s2];
        unsigned t1 = slot_type(c, r->s1), t2 = slot_type(c, r->s2);
        if (t1 != VARINT_BITMAP_ARRAY || t2 != VARINT_BITMAP_ARRAY) {
            c->nBinNonArray++;
            c->flags |= F_BINOP_NONARRAY;
        }
        if (t1 == VARINT_BITMAP_RUNS || t2 == VARINT_BITMAP_RUNS) {
            c->nBinRuns++;
        }
        if (t1 == VARINT_BITMAP_BITMAP || t2 == VARINT_BITMAP_BITMAP) {
            c->nBinBitmap++;
        }
        if (r->s1 == r->s2) {
            c->nBinSame++;
        }
        if (r->s1 == d || r->s2 == d) {
            c->nBinAliasDst++;
        }
        varintBitmap *nv = r->op == OP_OR    ? varintBitmapOr(p, q)
                           : r->op == OP_AND ? varintBitmapAnd(p, q)
                           : r->op == OP_XOR ? varintBitmapXor(p, q)
                                             : varintBitmapAndNot(p, q);
        if (!nv) {
            return FAILF(c, "binop", "null",
                         "record %u: %s(slot %u, slot %u) returned NULL",
                         c->recno, after, r->s1, r->s2);
        }
        /* operands unchanged: full comparison against their (unchanged)
         * models, before the destination slot is replaced */
        if (check_card(c, r->s1, "binary-op operand") ||
            check_full(c, r->s1, "binop.operand", after, alt) ||
            (r->s2 != r->s1 &&
             (check_card(c, r->s2, "binary-op operand") ||
              check_full(c, r->s2, "binop.operand", after, alt)))) {
            varintBitmapFree(nv);
            return 1;
        }
        static model tmp;
        const model *a = &c->m[r->s1], *b = &c->m[r->s2];
        for (size_t i = 0; i < UNIVERSE / 64; i++) {
            uint64_t x = a->w[i], y = b->w[i];
            tmp.w[i] = r->op == OP_OR    ? (x | y)
                       : r->op == OP_AND ? (x & y)
                       : r->op == OP_XOR ? (x ^ y)
                                         : (x & ~y);
        }
        m_recount(&tmp);
        slot_replace(c, d, nv);
        *md = tmp;
        c->deser[d] = false;
        inplace = 0;
        forceFull = 1;
        break;
    }

    case OP_SERDES: {
        /* documented usage (examples/standalone/example_bitmap.c): encode into
         * SizeBytes()+100, decode from (buffer, returned size) */
        size_t cap = varintBitmapSizeBytes(c->vb[d]) + 100;
        uint8_t *enc = (uint8_t *)vf_exact_alloc(cap);
        size_t n = varintBitmapEncode(c->vb[d], enc);
        if (vf_exact_check(enc) || n > cap) {
            FAILF(c, "encode", "canary",
                  "record %u: Encode of slot %u (cardinality %u, container %s) "
                  "returned %zu and wrote past SizeBytes()+100 = %zu",
                  c->recno, d, md->card, type_name(typeBefore), n, cap);
            vf_exact_free(enc);
            return 1;
        }
        if (n == 0) {
            FAILF(c, "encode", "length",
                  "record %u: Encode of slot %u returned 0", c->recno, d);
            vf_exact_free(enc);
            return 1;
        }
        uint8_t *exact = (uint8_t *)vf_exact_alloc(n);
        memcpy(exact, enc, n);
        vf_exact_free(enc);
        varintBitmap *nv = varintBitmapDecode(exact, n);
        vf_exact_free(exact);
        if (!nv) {
            return FAILF(c, "decode", "null",
                         "record %u: Decode of the %zu bytes Encode produced "
                         "for slot %u (cardinality %u, container %s) returned "
                         "NULL",
                         c->recno, n, d, md->card, type_name(typeBefore));
        }
        /* the encoded object must be unchanged */
        if (check_card(c, d, "serialise source") ||
            check_full(c, d, "encode.source", after, alt)) {
            varintBitmapFree(nv);
            return 1;
        }
        c->nDeser[typeBefore]++;
        slot_replace(c, d, nv);
        c->deser[d] = true;
        inplace = 0;
        forceFull = 1;
        break;
    }

    case OP_BURST_ADD:
    case OP_BURST_REMOVE: {
        bool add = r->op == OP_BURST_ADD;
        mark_mutation(c, d);
        uint32_t limit = r->n, target = r->target;
        if (target) {
            if (add ? md->card >= target : md->card <= target) {
                target = 0;
            } else {
                limit = UNIVERSE;
            }
        }
        uint32_t cursor = r->x, last = r->x;
        if (r->stripes) {
            if (r->sclear) {
                varintBitmapClear(c->vb[d]);
                m_clear(md);
            }
            uint32_t lo = r->x & 0x3fff; /* leave room for 48 stripes */
            for (uint32_t i = 0; i < r->n; i++) {
                uint32_t len = (i == 0 && r->sfirst) ? r->sfirst : r->slen;
                uint32_t hi = lo + len;
                if (hi > 65535) {
                    break;
                }
                if (add) {
                    varintBitmapAddRange(c->vb[d], (uint16_t)lo, (uint16_t)hi);
                } else {
                    varintBitmapRemoveRange(c->vb[d], (uint16_t)lo,
                                            (uint16_t)hi);
                }
                for (uint32_t v = lo; v < hi; v++) {
                    if (add) {
                        m_add(md, v);
                    } else {
                        m_del(md, v);
                    }
                }
                uint32_t got = varintBitmapCardinality(c->vb[d]);
                if (got != md->card) {
                    return FAILF(c, "cardinality", "count",
                                 "record %u (%s, stripe #%u = [%u,%u)): slot %u "
                                 "cardinality %u, model %u (container %s)",
                                 c->recno, after, i, lo, hi, d, got, md->card,
                                 type_name(slot_type(c, d)));
                }
                if (check_contains(c, d, (int64_t)lo - 1, after) ||
                    check_contains(c, d, lo, after) ||
                    check_contains(c, d, (int64_t)hi - 1, after) ||
                    check_contains(c, d, hi, after) ||
                    check_contains(c, d, r->x & 0x3fff, after)) {
                    return 1;
                }
                last = hi - 1;
                /* stride 1: adjacent stripes (merge); otherwise a gap */
                lo = hi + (r->stride - 1) * (1 + (i & 3));
            }
            nb[nnb++] = (int64_t)(r->x & 0x3fff) - 1;
            nb[nnb++] = r->x & 0x3fff;
            nb[nnb++] = last;
            nb[nnb++] = (int64_t)last + 1;
            forceFull = 1;
            break;
        }
        for (uint32_t i = 0; i < limit; i++) {
            uint32_t v;
            if (r->walk) {
                int32_t f = m_next(md, cursor, !add);
                if (f < 0) {
                    break;
                }
                v = (uint32_t)f;
                cursor = (v + r->stride) & 0xffff;
            } else {
                v = (r->x + i * r->stride) & 0xffff;
            }
            last = v;
            if (step_one(c, d, add, v, after)) {
                return 1;
            }
            uint32_t got = varintBitmapCardinality(c->vb[d]);
            if (got != md->card) {
                return FAILF(c, "cardinality", "count",
                             "record %u (%s, element #%u = %u): slot %u "
                             "cardinality %u, model %u (container %s)",
                             c->recno, after, i, v, d, got, md->card,
                             type_name(slot_type(c, d)));
            }
            if (check_contains(c, d, v, after)) {
                return 1;
            }
            if (target && md->card == target) {
                break;
            }
        }
        nb[nnb++] = (int64_t)r->x - 1;
        nb[nnb++] = r->x;
        nb[nnb++] = (int64_t)r->x + 1;
        nb[nnb++] = (int64_t)last - 1;
        nb[nnb++] = last;
        nb[nnb++] = (int64_t)last + 1;
        break;
    }
    }

    /* ---- oracle after the record ---- */
    if (check_card(c, d, after)) {
        return 1;
    }
    for (unsigned s = 0; s < NSLOT; s++) {
        if (s != d && check_card(c, s, "untouched slot")) {
            return 1;
        }
    }
    for (unsigned i = 0; i < nnb; i++) {
        if (check_contains(c, d, nb[i], after)) {
            return 1;
        }
    }
    {
        /* 16 generated probes: 8 uniform, 8 guided to members of the model and
         * the values next to them */
        uint64_t s = rec_hash(0xC08 + c->recno, r) | 1;
        for (unsigned i = 0; i < 16; i++) {
            uint32_t p = (uint32_t)(vf_xs(&s) >> 20) & 0xffff;
            int64_t v = p;
            if (i >= 8) {
                int32_t f = m_next(md, p, true);
                if (f >= 0) {
                    v = (int64_t)f + (i % 4 == 1 ? 1 : i % 4 == 2 ? -1 : 0);
                }
            }
            if (check_contains(c, d, v, after)) {
                return 1;
            }
        }
    }
    /* classification (GetStats is read here and nowhere in the oracle) */
    unsigned typeAfter = slot_type(c, d);
    c->nType[typeAfter]++;
    if (typeAfter == VARINT_BITMAP_RUNS) {
        c->flags |= F_RUNS;
    }
    if (inplace) {
        c->nTrans[typeBefore][typeAfter]++;
        if (cardBefore <= 4095 && md->card >= 4096) {
            c->nCrossUp++;
            c->flags |= F_CROSS_UP;
        }
        if (cardBefore >= 4096 && md->card <= 4095) {
            c->nCrossDown++;
            c->flags |= F_CROSS_DOWN;
        }
    }
    if (md->card <= 1024 || (c->recno & 7) == 7 || c->recno + 1 == c->nrec) {
        if (check_full(c, d, "iterate", after, FULL_BOTH)) {
            return 1;
        }
    } else if (forceFull) {
        if (check_full(c, d, "iterate", after, dstHow)) {
            return 1;
        }
    }
    if (c->exhaustive && (forceFull || c->recno + 1 == c->nrec)) {
        if (check_all_contains(c, d, after)) {
            return 1;
        }
    }
    return 0;
}

/* ------------------------------------------------------------------ driver */
static void flush_classes(const ctx *c) {
    char nm[64];
    for (unsigned i = 0; i < OP_COUNT; i++) {
        if (c->nOp[i]) {
            snprintf(nm, sizeof(nm), "op.%s", OPNAME[i]);
            vf_class_n(nm, c->nOp[i]);
        }
    }
    for (unsigned i = 0; i < 3; i++) {
        if (c->nType[i]) {
            snprintf(nm, sizeof(nm), "type.%s", type_name(i));
            vf_class_n(nm, c->nType[i]);
        }
        if (c->nDeser[i]) {
            snprintf(nm, sizeof(nm), "deser.%s", type_name(i));
            vf_class_n(nm, c->nDeser[i]);
        }
        for (unsigned j = 0; j < 3; j++) {
            if (i != j && c->nTrans[i][j]) {
                snprintf(nm, sizeof(nm), "trans.%s>%s", type_name(i),
                         type_name(j));
                vf_class_n(nm, c->nTrans[i][j]);
            }
        }
    }
    static const char *const stepName[4] = {"step.4095>4096", "step.4096>4097",
                                            "step.4097>4096", "step.4096>4095"};
    for (unsigned i = 0; i < 4; i++) {
        if (c->nStep[i]) {
            vf_class_n(stepName[i], c->nStep[i]);
        }
    }
#define FLUSH(field, name)                                                     \
    if (c->field) {                                                            \
        vf_class_n(name, c->field);                                            \
    }
    FLUSH(nCrossUp, "cross.up");
    FLUSH(nCrossDown, "cross.down");
    FLUSH(nMutAfterDeser, "mut.after.deser");
    FLUSH(nBinNonArray, "binop.nonarray");
    FLUSH(nBinRuns, "binop.runs");
    FLUSH(nBinBitmap, "binop.bitmap");
    FLUSH(nBinSame, "binop.same.operands");
    FLUSH(nBinAliasDst, "binop.dst.is.operand");
    FLUSH(nLongNonEmpty, "addrange.long.nonempty");
    FLUSH(nLongEmpty, "addrange.long.empty");
    FLUSH(nLongRemove, "removerange.long");
    FLUSH(nFull, "fullcompare");
#undef FLUSH
    if ((c->flags & F_CROSS_UP) && (c->flags & F_CROSS_DOWN)) {
        vf_class("history.cross.both");
    }
    vf_class_n("records", c->executed);
}

/* runs a decoded history; returns the hash of the record sequence */
static uint64_t run_history(const rec *recs, unsigned n, vf_report *rep,
                            int exhaustive, int describe) {
    ctx *c = &C;
    memset(c, 0, sizeof(*c));
    c->rep = rep;
    c->nrec = n;
    c->exhaustive = exhaustive;
    uint64_t h = vf_mix(0xC08, n);
    for (unsigned s = 0; s < NSLOT; s++) {
        c->vb[s] = varintBitmapCreate();
        if (!c->vb[s]) {
            FAILF(c, "create", "null", "varintBitmapCreate returned NULL");
            goto done;
        }
    }
    /* a new bitmap is the empty set */
    for (unsigned s = 0; s < NSLOT; s++) {
        if (check_card(c, s, "create")) {
            goto done;
        }
    }
    if (check_full(c, 0, "iterate", "create", FULL_BOTH)) {
        goto done;
    }
    for (unsigned i = 0; i < n; i++) {
        c->recno = i;
        c->executed = i + 1;
        h = rec_hash(h, &recs[i]);
        if (describe && rep->desclen < 500) {
            rec_desc(rep, &recs[i]);
            if (rep->desclen >= 500 && i + 1 < n) {
                vf_desc(rep, "...(+%u records)", n - 1 - i);
            }
        }
        if (apply(c, &recs[i])) {
            goto done;
        }
    }
    /* at the end: every slot in full */
    c->recno = n - 1;
    for (unsigned s = 0; s < NSLOT; s++) {
        if (check_card(c, s, "end of history") ||
            check_full(c, s, "iterate", "end of history", FULL_BOTH)) {
            goto done;
        }
        if (exhaustive && c->m[s].card &&
            check_all_contains(c, s, "end of history")) {
            goto done;
        }
    }
done:
    for (unsigned s = 0; s < NSLOT; s++) {
        varintBitmapFree(c->vb[s]);
        c->vb[s] = NULL;
    }
    if (!exhaustive) {
        /* class counters describe the generated histories only */
        flush_classes(c);
    }
    return h;
}

void vf_run(vf_rd *r, vf_report *rep) {
    static rec recs[MAXREC];
    size_t left = vf_left(r);
    unsigned n = (unsigned)((left + RECLEN - 1) / RECLEN);
    if (n < 1) {
        n = 1;
    }
    if (n > MAXREC) {
        n = MAXREC;
    }
    for (unsigned i = 0; i < n; i++) {
        uint8_t op = vf_u8(r);
        uint8_t slot = vf_u8(r);
        uint16_t a = vf_u16(r);
        uint16_t b = vf_u16(r);
        decode_rec(&recs[i], op, slot, a, b);
    }
    vf_desc(rep, "%u records: ", n);
    uint64_t h = run_history(recs, n, rep, 0, 1);
    if (C.flags) {
        vf_nontrivial(h);
        vf_class("case.nontrivial");
    }
}

/* ------------------------------------------------------------------- sweep */
/* Deterministic histories run through the same interpreter, with contains()
 * additionally tested on all 65536 values after whole-object operations and at
 * the end of each history. */
typedef struct script {
    rec r[48];
    unsigned n;
} script;

static void s_add(script *s, unsigned d, uint32_t v) {
    rec *r = &s->r[s->n++];
    memset(r, 0, sizeof(*r));
    r->op = OP_ADD;
    r->dst = (uint8_t)d;
    r->x = v;
}
static void s_remove(script *s, unsigned d, uint32_t v) {
    s_add(s, d, v);
    s->r[s->n - 1].op = OP_REMOVE;
}
static void s_range(script *s, unsigned d, bool add, uint32_t lo, uint32_t hi) {
    rec *r = &s->r[s->n++];
    memset(r, 0, sizeof(*r));
    r->op = add ? OP_ADDRANGE : OP_REMOVERANGE;
    r->dst = (uint8_t)d;
    r->x = lo;
    r->y = hi;
}
static void s_simple(script *s, unsigned op, unsigned d, unsigned s1,
                     unsigned s2) {
    rec *r = &s->r[s->n++];
    memset(r, 0, sizeof(*r));
    r->op = (uint8_t)op;
    r->dst = (uint8_t)d;
    r->s1 = (uint8_t)s1;
    r->s2 = (uint8_t)s2;
}
static void s_burst(script *s, unsigned d, bool add, uint32_t start,
                    uint32_t stride, uint32_t n, uint32_t target,
                    uint32_t walk) {
    rec *r = &s->r[s->n++];
    memset(r, 0, sizeof(*r));
    r->op = add ? OP_BURST_ADD : OP_BURST_REMOVE;
    r->dst = (uint8_t)d;
    r->x = start;
    r->stride = stride;
    r->n = n;
    r->target = target;
    r->walk = walk;
}
static void s_many(script *s, unsigned d, uint32_t base, uint32_t n,
                   uint32_t shape, uint32_t stride, uint32_t seed) {
    rec *r = &s->r[s->n++];
    memset(r, 0, sizeof(*r));
    r->op = OP_ADDMANY;
    r->dst = (uint8_t)d;
    r->x = base;
    r->n = n;
    r->shape = shape;
    r->stride = stride;
    r->seed = seed;
}

/* pre-states ("kinds") built into slot d */
enum {
    K_EMPTY,
    K_ONE,          /* {5} */
    K_TWO,          /* {5, 60000} */
    K_SMALL,        /* 100 scattered members incl. 0 and 65535 */
    K_ARRAY4096,    /* exactly 4096 members, ARRAY */
    K_BITMAP4097,   /* 4097 members, BITMAP */
    K_BITMAP30000,  /* dense */
    K_RUNS5000,     /* run [100,5100) on an empty set */
    K_RUNS65535,    /* run [0,65535) */
    K_CLEARED_BITMAP_FEW, /* BITMAP container cleared, then 3 members */
    K_CLEARED_RUNS,       /* RUNS container cleared */
    K_DESER_RUNS,         /* a decoded RUNS container */
    K_COUNT
};

static void s_build(script *s, unsigned d, unsigned kind) {
    switch (kind) {
    case K_EMPTY:
        break;
    case K_ONE:
        s_add(s, d, 5);
        break;
    case K_TWO:
        s_add(s, d, 5);
        s_add(s, d, 60000);
        break;
    case K_SMALL:
        s_many(s, d, 0, 100, SH_RANDOM, 1, 12345);
        s_add(s, d, 0);
        s_add(s, d, 65535);
        break;
    case K_ARRAY4096:
        s_burst(s, d, true, 1, 2, 4096, 0, 0);
        break;
    case K_BITMAP4097:
        s_burst(s, d, true, 3, 3, 4097, 0, 0);
        break;
    case K_BITMAP30000:
        s_range(s, d, true, 1000, 4000);
        s_range(s, d, true, 4000, 8000);
        s_range(s, d, true, 20000, 43000);
        break;
    case K_RUNS5000:
        s_range(s, d, true, 100, 5100);
        break;
    case K_RUNS65535:
        s_range(s, d, true, 0, 65535);
        break;
    case K_CLEARED_BITMAP_FEW:
        s_burst(s, d, true, 7, 5, 4200, 0, 0);
        s_simple(s, OP_CLEAR, d, 0, 0);
        s_add(s, d, 9);
        s_add(s, d, 4096);
        s_add(s, d, 65535);
        break;
    case K_CLEARED_RUNS:
        s_range(s, d, true, 10, 6000);
        s_simple(s, OP_CLEAR, d, 0, 0);
        break;
    case K_DESER_RUNS:
        s_range(s, d, true, 30000, 65535);
        s_simple(s, OP_SERDES, d, 0, 0);
        break;
    }
}

static int s_run(script *s, vf_report *rep, uint64_t *evals) {
    run_history(s->r, s->n, rep, 1, 0);
    (*evals)++;
    if (rep->violated) {
        /* describe the failing script */
        for (unsigned i = 0; i < s->n; i++) {
            rec_desc(rep, &s->r[i]);
        }
        size_t l = strlen(rep->detail);
        snprintf(rep->detail + l, sizeof(rep->detail) - l, " | history: %.300s",
                 rep->desc);
        return 1;
    }
    s->n = 0;
    return 0;
}

void vf_sweep(vf_report *rep) {
    static script s;
    uint64_t evals = 0;
    s.n = 0;

    /* S1: every table length, added to / removed from every kind of set */
    for (unsigned kind = 0; kind < K_COUNT; kind++) {
        for (unsigned li = 0; li < 9; li++) {
            uint32_t len = LEN_TBL[li];
            for (unsigned pos = 0; pos < 3; pos++) {
                uint32_t lo = pos == 0 ? 0 : pos == 1 ? 100 : 65535 - len;
                if (lo + len > 65535 || (pos == 1 && len <= 4096)) {
                    continue;
                }
                s_build(&s, 0, kind);
                s_range(&s, 0, true, lo, lo + len);
                s_simple(&s, OP_SERDES, 0, 0, 0);
                s_range(&s, 0, false, lo + len / 3, lo + len / 3 + len / 2);
                s_add(&s, 0, lo + len / 3);
                s_range(&s, 0, false, lo, lo + len);
                if (s_run(&s, rep, &evals)) {
                    return;
                }
            }
        }
    }
    /* S2: single-element walks across 4096 in both directions */
    for (uint32_t stride = 1; stride <= 8; stride += 2) {
        for (unsigned walk = 0; walk < 2; walk++) {
            s_burst(&s, 0, true, 0, stride, 4200, 0, 0);
            s_burst(&s, 0, false, 16384, 3, 0, 4096, 1);
            s_burst(&s, 0, false, 0, stride, 1, 0, walk);  /* 4095: ARRAY */
            s_burst(&s, 0, true, 60001, 1, 1, 0, 0);       /* 4096 */
            s_burst(&s, 0, true, 60003, 1, 1, 0, 0);       /* 4097: BITMAP */
            s_remove(&s, 0, 60003);
            s_remove(&s, 0, 60001);
            s_simple(&s, OP_SERDES, 0, 0, 0);
            s_add(&s, 0, 65535);
            s_add(&s, 0, 65534);
            s_simple(&s, OP_CLONE, 1, 0, 0);
            s_burst(&s, 1, false, 0, stride, 0, 4000, walk);
            s_burst(&s, 1, true, 40000, stride, 0, 4097, walk);
            s_burst(&s, 1, false, 30000, 2, 300, 0, 1);
            if (s_run(&s, rep, &evals)) {
                return;
            }
        }
    }
    /* S3: set algebra over every pair of kinds */
    static const uint8_t algebraKinds[8] = {
        K_EMPTY,       K_SMALL,    K_ARRAY4096,          K_BITMAP4097,
        K_BITMAP30000, K_RUNS5000, K_CLEARED_BITMAP_FEW, K_DESER_RUNS};
    for (unsigned ia = 0; ia < 8; ia++) {
        for (unsigned ib = 0; ib < 8; ib++) {
            unsigned ka = algebraKinds[ia], kb = algebraKinds[ib];
            s_build(&s, 0, ka);
            s_build(&s, 1, kb);
            s_simple(&s, OP_OR, 2, 0, 1);
            s_simple(&s, OP_AND, 3, 0, 1);
            s_simple(&s, OP_XOR, 2, 0, 1);
            s_simple(&s, OP_ANDNOT, 3, 0, 1);
            s_simple(&s, OP_ANDNOT, 3, 1, 0);
            s_add(&s, 2, 77);
            s_remove(&s, 3, 5);
            if (ka == kb) {
                /* coinciding operands, destination aliasing an operand */
                s_simple(&s, OP_XOR, 2, 0, 0);
                s_simple(&s, OP_AND, 0, 0, 0);
                s_simple(&s, OP_OR, 1, 1, 0);
                s_simple(&s, OP_ANDNOT, 1, 1, 1);
            }
            if (s_run(&s, rep, &evals)) {
                return;
            }
        }
    }
    /* S4: serialise/deserialise every kind, then mutate the decoded object */
    for (unsigned kind = 0; kind < K_COUNT; kind++) {
        s_build(&s, 0, kind);
        s_simple(&s, OP_SERDES, 0, 0, 0);
        s_simple(&s, OP_CLONE, 1, 0, 0);
        s_add(&s, 0, 4099);
        s_remove(&s, 0, 5);
        s_many(&s, 0, 40000, 17, SH_DESC, 3, 1);
        s_range(&s, 0, true, 50, 70);
        s_simple(&s, OP_SERDES, 0, 0, 0);
        s_range(&s, 0, false, 0, 65535);
        s_remove(&s, 0, 65535);
        s_simple(&s, OP_SERDES, 0, 0, 0);
        s_add(&s, 0, 1);
        s_simple(&s, OP_SERDES, 1, 0, 0);
        s_simple(&s, OP_CLEAR, 1, 0, 0);
        s_simple(&s, OP_SERDES, 1, 0, 0);
        s_add(&s, 1, 2);
        if (s_run(&s, rep, &evals)) {
            return;
        }
    }
    vf_evals(evals);
    vf_class_n("sweep.histories", evals);
}
