/* vf_union - number of distinct 64-bit values over the given binary dumps */
#include <stdint.h>
#include <stdio.h>
#include <stdlib.h>

static int cmp(const void *a, const void *b) {
    uint64_t x = *(const uint64_t *)a, y = *(const uint64_t *)b;
    return x < y ? -1 : x > y;
}

int main(int argc, char **argv) {
    size_t cap = 1 << 20, n = 0;
    uint64_t *v = malloc(cap * sizeof(*v));
    for (int i = 1; i < argc; i++) {
        FILE *f = fopen(argv[i], "rb");
        if (!f) {
            continue;
        }
        for (;;) {
            if (n == cap) {
                cap *= 2;
                v = realloc(v, cap * sizeof(*v));
                if (!v) {
                    return 2;
                }
            }
            size_t r = fread(v + n, sizeof(*v), cap - n, f);
            if (r == 0) {
                break;
            }
            n += r;
        }
        fclose(f);
    }
    qsort(v, n, sizeof(*v), cmp);
    size_t d = 0;
    for (size_t i = 0; i < n; i++) {
        if (i == 0 || v[i] != v[i - 1]) {
            d++;
        }
    }
    printf("%zu\n", d);
    return 0;
}
