/* C13 - decoders never write beyond the caller's output capacity.
 *
 * case layout:  codec:1 capsel:1 caparg:2 start:2  array-descriptor
 *               (start is only used by varintFORDecodeBlock)
 *
 * A valid encoding is produced by the library's own encoder into a generous,
 * zero-filled destination (size bounds are C03's business).  It is decoded
 * twice with capacity <= count:
 *   phase 1  into a buffer with a guard region behind `capacity` elements:
 *            guard unchanged, result <= capacity, result 0 where the codec
 *            documents failure, elements [0, result) equal the input;
 *   phase 2  into vf_exact_alloc(capacity * elemsize): ASan redzone / canary
 *            (this also covers the library's own scratch buffers).          */
#include "c13_codecs.h"

const char *vf_prop_id = "C13";
const size_t vf_case_maxlen = 160;

enum {
    K_FOR,
    K_FOR_BATCH,
    K_FOR_BLOCK,
    K_GROUP,
    K_DICT,
    K_RLE,
    K_RLE_HDR,
    K_GAMMA,
    K_EDELTA,
    K_BP32,
    K_BP64,
    K_BPD32,
    K_BPD64,
    K_AD_DELTA,
    K_AD_FOR,
    K_AD_PFOR,
    K_AD_DICT,
    K_AD_BITMAP,
    K_AD_TAGGED,
    K_COUNT
};

static const char *const k_name[K_COUNT] = {
    "for.decode",          "for.batchdecode",     "for.decodeblock",
    "group.decode",        "dict.decodeinto",     "rle.decode",
    "rle.decodewithheader", "elias.gamma",        "elias.delta",
    "bp128.decode32",      "bp128.decode64",      "bp128.deltadecode32",
    "bp128.deltadecode64", "adaptive.DELTA",      "adaptive.FOR",
    "adaptive.PFOR",       "adaptive.DICT",       "adaptive.BITMAP",
    "adaptive.TAGGED"};

/* what the codec documents for "encoding holds more than capacity" */
static int k_documents_zero(unsigned k) {
    switch (k) {
    case K_FOR:      /* "Not enough space in output buffer": return 0 */
    case K_FOR_BATCH:
    case K_GROUP:    /* "or 0 on error" */
    case K_DICT:     /* "or 0 on error" */
    case K_RLE_HDR:  /* "Buffer too small": return 0 */
    case K_AD_FOR:   /* adaptive: whatever the sub-codec does */
    case K_AD_PFOR:
    case K_AD_DICT:
        return 1;
    default:
        return 0;
    }
}

static int k_is32(unsigned k) {
    return k == K_BP32 || k == K_BPD32;
}

static unsigned k_flags(unsigned k) {
    switch (k) {
    case K_GAMMA:
    case K_EDELTA:
        return VF_ARR_GE1;
    case K_BP32:
        return VF_ARR_U32;
    case K_BPD32:
        return VF_ARR_U32 | VF_ARR_SORTED;
    case K_BPD64:
        return VF_ARR_SORTED;
    case K_AD_BITMAP:
        return VF_ARR_STRICT16;
    default:
        return 0;
    }
}

typedef struct enc {
    uint8_t *buf;
    size_t len;    /* bytes written */
    size_t bits;   /* Elias: total bits */
    uint32_t *v32; /* 32-bit view of the input for the 32-bit codecs */
} enc;

static void enc_free(enc *e) {
    free(e->buf);
    free(e->v32);
    e->buf = NULL;
    e->v32 = NULL;
}

/* encode with the library's encoder; returns 0 if the encoder reported
 * failure */
static int do_encode(unsigned k, const uint64_t *v, size_t n, enc *e) {
    memset(e, 0, sizeof(*e));
    /* zero fill: the headerless RLE decoder documents a zero run length as
     * its end marker */
    e->buf = c13_dst(n, 0);
    switch (k) {
    case K_FOR:
    case K_FOR_BLOCK: {
        varintFORMeta m;
        memset(&m, 0, sizeof(m));
        e->len = varintFOREncode(e->buf, v, n, &m);
        break;
    }
    case K_FOR_BATCH: {
        varintFORMeta m;
        memset(&m, 0, sizeof(m));
        e->len = varintFORBatchEncode(e->buf, v, n, &m);
        break;
    }
    case K_GROUP:
        e->len = varintGroupEncode(e->buf, v, (uint8_t)n);
        break;
    case K_DICT:
        e->len = varintDictEncode(e->buf, v, n);
        break;
    case K_RLE:
        e->len = varintRLEEncode(e->buf, v, n, NULL);
        break;
    case K_RLE_HDR:
        e->len = varintRLEEncodeWithHeader(e->buf, v, n, NULL);
        break;
    case K_GAMMA: {
        varintEliasMeta m;
        memset(&m, 0, sizeof(m));
        e->len = varintEliasGammaEncodeArray(e->buf, v, n, &m);
        e->bits = m.totalBits;
        break;
    }
    case K_EDELTA: {
        varintEliasMeta m;
        memset(&m, 0, sizeof(m));
        e->len = varintEliasDeltaEncodeArray(e->buf, v, n, &m);
        e->bits = m.totalBits;
        break;
    }
    case K_BP32:
        e->v32 = c13_u32(v, n);
        e->len = varintBP128Encode32(e->buf, e->v32, n, NULL);
        break;
    case K_BPD32:
        e->v32 = c13_u32(v, n);
        e->len = varintBP128DeltaEncode32(e->buf, e->v32, n, NULL);
        break;
    case K_BP64:
        e->len = varintBP128Encode64(e->buf, v, n, NULL);
        break;
    case K_BPD64:
        e->len = varintBP128DeltaEncode64(e->buf, v, n, NULL);
        break;
    default: {
        static const varintAdaptiveEncodingType t[] = {
            VARINT_ADAPTIVE_DELTA, VARINT_ADAPTIVE_FOR,    VARINT_ADAPTIVE_PFOR,
            VARINT_ADAPTIVE_DICT,  VARINT_ADAPTIVE_BITMAP, VARINT_ADAPTIVE_TAGGED};
        c13_paint_stack();
        e->len = varintAdaptiveEncodeWith(e->buf, v, n, t[k - K_AD_DELTA], NULL);
        break;
    }
    }
    return e->len != 0;
}

/* one decoder call; `out` has room for `cap` elements (4 or 8 bytes each).
 * For the group codec the return value is bytes; *fields receives the field
 * count. */
static size_t do_decode(unsigned k, const enc *e, void *out, size_t cap,
                        size_t start, uint8_t *fields) {
    switch (k) {
    case K_FOR:
        return varintFORDecode(e->buf, (uint64_t *)out, cap);
    case K_FOR_BATCH:
        return varintFORBatchDecode(e->buf, (uint64_t *)out, cap);
    case K_FOR_BLOCK:
        return varintFORDecodeBlock(e->buf, (uint64_t *)out, start, cap);
    case K_GROUP:
        return varintGroupDecode(e->buf, (uint64_t *)out, fields, cap);
    case K_DICT:
        return varintDictDecodeInto(e->buf, e->len, (uint64_t *)out, cap);
    case K_RLE:
        return varintRLEDecode(e->buf, (uint64_t *)out, cap);
    case K_RLE_HDR:
        return varintRLEDecodeWithHeader(e->buf, (uint64_t *)out, cap);
    case K_GAMMA:
        return varintEliasGammaDecodeArray(e->buf, e->bits, (uint64_t *)out,
                                           cap);
    case K_EDELTA:
        return varintEliasDeltaDecodeArray(e->buf, e->bits, (uint64_t *)out,
                                           cap);
    case K_BP32:
        return varintBP128Decode32(e->buf, (uint32_t *)out, cap);
    case K_BPD32:
        return varintBP128DeltaDecode32(e->buf, (uint32_t *)out, cap);
    case K_BP64:
        return varintBP128Decode64(e->buf, (uint64_t *)out, cap);
    case K_BPD64:
        return varintBP128DeltaDecode64(e->buf, (uint64_t *)out, cap);
    default:
        return varintAdaptiveDecode(e->buf, (uint64_t *)out, cap, NULL);
    }
}

#define GUARD_ELEMS 136 /* one BP128 block and a bit */
#define GUARD_BYTE 0xA5

/* the whole check for (codec, array, capacity, start) */
static void check_one(vf_report *rep, unsigned k, const uint64_t *v, size_t n,
                      const enc *e, size_t cap, size_t start) {
    const char *site = k_name[k];
    const size_t esz = k_is32(k) ? 4 : 8;
    const size_t avail = k == K_FOR_BLOCK ? n - start : n; /* elements the
                                          encoding holds from `start` on */

    /* ---- phase 1: guard region behind the capacity ---------------------- */
    size_t total = (cap > n ? cap : n) + GUARD_ELEMS;
    uint8_t *g = (uint8_t *)malloc(total * esz);
    if (!g) {
        abort();
    }
    memset(g, GUARD_BYTE, total * esz);
    uint8_t fields = 0xEE;
    size_t r = do_decode(k, e, g, cap, start, &fields);
    for (size_t i = cap * esz; i < total * esz; i++) {
        if (g[i] != GUARD_BYTE) {
            vf_fail(rep, site, "bound",
                    "count=%zu capacity=%zu start=%zu: output element %zu "
                    "(byte %zu) was written, beyond the capacity; returned %zu",
                    n, cap, start, i / esz, i, r);
            free(g);
            return;
        }
    }
    /* number of elements the decoder claims to have produced */
    size_t produced = r;
    if (k == K_GROUP) {
        produced = r ? fields : 0;
        if (r != 0 && r != e->len) {
            vf_fail(rep, site, "count",
                    "count=%zu capacity=%zu: returned %zu bytes read, the "
                    "encoder wrote %zu",
                    n, cap, r, e->len);
            free(g);
            return;
        }
    }
    if (produced > cap) {
        vf_fail(rep, site, "count",
                "count=%zu capacity=%zu start=%zu: decoder reports %zu "
                "elements, more than the capacity",
                n, cap, start, produced);
        free(g);
        return;
    }
    if (produced > avail) {
        vf_fail(rep, site, "count",
                "count=%zu capacity=%zu start=%zu: decoder reports %zu "
                "elements, the encoding holds %zu",
                n, cap, start, produced, avail);
        free(g);
        return;
    }
    if (cap < avail && k_documents_zero(k) && produced != 0) {
        vf_fail(rep, site, "count",
                "count=%zu capacity=%zu: codec documents failure (0) when the "
                "data does not fit, returned %zu",
                n, cap, produced);
        free(g);
        return;
    }
    if (cap >= avail && produced != avail) {
        vf_fail(rep, site, "count",
                "count=%zu capacity=%zu start=%zu: capacity suffices but "
                "decoder reports %zu of %zu elements",
                n, cap, start, produced, avail);
        free(g);
        return;
    }
    /* correct prefix.  Exception: adaptive PFOR at full capacity - its round
     * trip is C02/C06's subject (marker collision, DESIGN section 6 #2) and a
     * prefix never exists there because the codec returns 0 when the data
     * does not fit. */
    if (k != K_AD_PFOR) {
        for (size_t i = 0; i < produced; i++) {
            uint64_t want = v[start + i], got;
            if (esz == 4) {
                uint32_t t;
                memcpy(&t, g + 4 * i, 4);
                got = t;
                want = (uint32_t)want;
            } else {
                memcpy(&got, g + 8 * i, 8);
            }
            if (got != want) {
                vf_fail(rep, site, "value",
                        "count=%zu capacity=%zu start=%zu returned %zu: "
                        "element %zu is %llu, input was %llu",
                        n, cap, start, produced, i, (unsigned long long)got,
                        (unsigned long long)want);
                free(g);
                return;
            }
        }
    }
    free(g);
    {
        char cls[64];
        snprintf(cls, sizeof(cls), "result.%s",
                 produced == 0 ? (cap == 0 ? "cap0" : "zero")
                 : produced < avail ? "prefix"
                                    : "full");
        vf_class(cls);
        if (cap > 0 && cap < avail) {
            snprintf(cls, sizeof(cls), "%s.%s", site,
                     produced == 0 ? "zero" : "prefix");
            vf_class(cls);
        }
    }

    /* ---- phase 2: exact-size output ------------------------------------- */
    void *x = vf_exact_alloc(cap * esz);
    uint8_t *xf = (uint8_t *)vf_exact_alloc(1);
    *xf = 0xEE;
    size_t r2 = do_decode(k, e, x, cap, start, xf);
    size_t dmg = vf_exact_check(x);
    size_t dmgf = vf_exact_check(xf);
    if (dmg || dmgf) {
        vf_fail(rep, site, "canary",
                "count=%zu capacity=%zu start=%zu: byte %zu behind the "
                "%zu-byte %s buffer was overwritten; returned %zu",
                n, cap, start, (dmg ? dmg : dmgf) - 1, dmg ? cap * esz : 1,
                dmg ? "output" : "field-count", r2);
    } else if (r2 != r) {
        vf_fail(rep, site, "count",
                "count=%zu capacity=%zu start=%zu: same call returned %zu with "
                "a guarded buffer and %zu with an exact-size buffer",
                n, cap, start, r, r2);
    }
    vf_exact_free(x);
    vf_exact_free(xf);
}

static size_t pick_capacity(unsigned sel, unsigned arg, size_t n,
                            const char **cls) {
    size_t cap;
    switch (sel % 12) {
    case 0:
        cap = 0;
        *cls = "cap.0";
        break;
    case 1:
        cap = 1;
        *cls = "cap.1";
        break;
    case 2:
        cap = n - 1;
        *cls = "cap.count-1";
        break;
    case 3:
        cap = n;
        *cls = "cap.count";
        break;
    case 4:
        cap = n / 2;
        *cls = "cap.half";
        break;
    case 5:
        cap = 127;
        *cls = "cap.127";
        break;
    case 6:
        cap = 128;
        *cls = "cap.128";
        break;
    case 7:
        cap = 129;
        *cls = "cap.129";
        break;
    default:
        cap = arg % (n + 1);
        *cls = "cap.uniform";
        break;
    }
    if (cap > n) {
        /* the property quantifies over capacities up to the count; decoders of
         * headerless formats are documented to be called with at most the
         * original count: fall back to the uniform choice */
        cap = arg % (n + 1);
        *cls = "cap.uniform";
    }
    return cap;
}

static size_t codec_maxlen2(unsigned k, int large) {
    size_t scale = vf_tier() == 1 ? 4 : 1;
    if (large && k != K_GROUP) {
        /* a fixed share of long arrays (runs and blocks far longer than any
         * internal chunk size) */
        return 70000;
    }
    switch (k) {
    case K_GROUP:
        return VARINT_GROUP_MAX_FIELDS;
    case K_GAMMA:
    case K_EDELTA:
        return 3000 * scale;
    default:
        return 5000 * scale;
    }
}
static size_t codec_maxlen(unsigned k) {
    return codec_maxlen2(k, 0);
}

void vf_run(vf_rd *r, vf_report *rep) {
    unsigned k = vf_u8(r) % K_COUNT;
    unsigned capsel = vf_u8(r);
    unsigned caparg = vf_u16(r);
    unsigned startarg = vf_u16(r);
    vf_arr a;
    const int large = (startarg & 31) == 31 || (vf_tier() == 1 && (startarg & 15) == 15);
    vf_take_array(r, &a, codec_maxlen2(k, large), k_flags(k));
    const size_t n = a.n;
    if (n > 20000) {
        vf_class("arr.n>20000");
    }
    const char *capcls = "";
    size_t cap = pick_capacity(capsel, caparg, n, &capcls);
    size_t start = k == K_FOR_BLOCK ? startarg % n : 0;
    if (k == K_FOR_BLOCK && cap > n - start && (capsel % 12) != 3) {
        /* keep most block requests inside the array; cap.count keeps the
         * "block runs past the end" case */
        cap = n - start;
    }
    vf_desc(rep, "codec=%s capacity=%zu (%s) start=%zu array{%s}", k_name[k],
            cap, capcls, start, a.desc);

    enc e;
    if (!do_encode(k, a.v, n, &e)) {
        vf_discard("encoder returned 0");
        enc_free(&e);
        vf_arr_free(&a);
        return;
    }
    vf_class(k_name[k]);
    vf_class(capcls);
    vf_arr_classes(&a, "arr");
    if (cap > 0 && cap < n) {
        vf_nontrivial(vf_mix(vf_mix(vf_mix(vf_mix(13, k), cap), start),
                             vf_arr_hash(&a)));
    }
    check_one(rep, k, a.v, n, &e, cap, start);
    enc_free(&e);
    vf_arr_free(&a);
}

/* deterministic sweep: every codec x lengths around the block / tagged-count
 * boundaries x every capacity 0..count (small lengths) or the boundary
 * capacities (larger lengths) */
void vf_sweep(vf_report *rep) {
    static const size_t lens[] = {1, 2, 3, 17, 64, 127, 128, 129, 130,
                                  241, 255, 256, 257, 300, 385};
    uint64_t evals = 0;
    for (unsigned k = 0; k < K_COUNT && !rep->violated; k++) {
        for (size_t li = 0; li < sizeof(lens) / sizeof(lens[0]); li++) {
            size_t n = lens[li];
            if (n > codec_maxlen(k)) {
                continue;
            }
            for (unsigned shape = 0; shape < 2 && !rep->violated; shape++) {
                uint64_t *v = (uint64_t *)malloc(n * sizeof(uint64_t));
                if (!v) {
                    abort();
                }
                uint64_t s = 0x1234567 + n;
                uint64_t acc = 1;
                for (size_t i = 0; i < n; i++) {
                    if (shape == 0 || (k_flags(k) & VF_ARR_STRICT16)) {
                        acc += 1 + (i % 7 == 0) * 2; /* small strictly
                                                        increasing ramp */
                    } else {
                        /* wide, non-decreasing where required */
                        uint64_t step = vf_xs(&s) >> (k_is32(k) ? 44 : 12);
                        if (i % 5 == 0) {
                            step = 0; /* runs of equal values */
                        }
                        acc = (k_flags(k) & VF_ARR_SORTED) || k_is32(k)
                                  ? acc + step
                                  : (vf_xs(&s) >> (i % 60));
                        if (acc == 0) {
                            acc = 1;
                        }
                    }
                    v[i] = k_is32(k) ? (uint32_t)acc : acc;
                }
                if (k_flags(k) & VF_ARR_SORTED) {
                    for (size_t i = 1; i < n; i++) {
                        if (v[i] < v[i - 1]) {
                            v[i] = v[i - 1];
                        }
                    }
                }
                if (shape == 1 && !(k_flags(k) & VF_ARR_STRICT16)) {
                    /* runs of two and three equal values (RLE, dictionary) */
                    for (size_t i = 1; i < n; i++) {
                        if (i % 7 == 1 || i % 7 == 2 || i % 7 == 4) {
                            v[i] = v[i - 1];
                        }
                    }
                }
                enc e;
                if (do_encode(k, v, n, &e)) {
                    for (size_t cap = 0; cap <= n && !rep->violated; cap++) {
                        if (n > 130 && !(cap <= 2 || cap + 2 >= n ||
                                         (cap >= 126 && cap <= 130) ||
                                         (cap >= 254 && cap <= 258) ||
                                         cap == n / 2)) {
                            continue;
                        }
                        size_t start = k == K_FOR_BLOCK ? (cap * 7 + 3) % n : 0;
                        size_t c2 = cap;
                        if (k == K_FOR_BLOCK && (cap & 1) && c2 > n - start) {
                            c2 = n - start;
                        }
                        check_one(rep, k, v, n, &e, c2, start);
                        evals++;
                    }
                }
                enc_free(&e);
                free(v);
            }
        }
    }
    vf_evals(evals);
    vf_class_n("sweep.evals", evals);
}
