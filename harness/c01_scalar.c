/* C01 - scalar varints round-trip every value with agreeing, bounded lengths.
 *
 * case layout:  family:1 put:1 align:1 fill:1  then up to 8 x { u64 (biased),
 *               width_extra:1 }.  family == 9 selects the sign helpers:
 *               { field:1 magnitude:u64 sign:1 }.
 *
 * oracle: decoded value == input; encoder return == every decoder return ==
 * every length predictor == length read from the stored first/last byte ==
 * reference length (vf_ref); every arena byte outside the encoding equals the
 * background fill. */
#include "vf.h"
#include "vf_ref.h"

#include "varint.h"
#include "varintChained.h"
#include "varintChainedSimple.h"
#include "varintExternal.h"
#include "varintExternalBigEndian.h"
#include "varintSplit.h"
#include "varintSplitFull.h"
#include "varintSplitFull16.h"
#include "varintSplitFullNoZero.h"
#include "varintTagged.h"

const char *vf_prop_id = "C01";
const size_t vf_case_maxlen = 96;

/* the header declares Put32/Get32, the .c file defines PutVarint32/GetVarint32:
 * resolve whichever exists */
varintWidth varintTaggedPut32(uint8_t *p, uint32_t v) __attribute__((weak));
varintWidth varintTaggedGet32(const uint8_t *z, uint32_t *r)
    __attribute__((weak));
varintWidth varintTaggedPutVarint32(uint8_t *p, uint32_t v)
    __attribute__((weak));
varintWidth varintTaggedGetVarint32(const uint8_t *z, uint32_t *r)
    __attribute__((weak));


/* The quick macros are also called with compile-time constant widths (as a
 * caller with a fixed record layout would): a fast path selected by
 * __builtin_constant_p is only reachable this way. */
#define LIT_PUT(M, dst, v, w)                                                  \
    switch (w) {                                                               \
    case 1: M(dst, v, VARINT_WIDTH_8B); break;                                 \
    case 2: M(dst, v, VARINT_WIDTH_16B); break;                                \
    case 3: M(dst, v, VARINT_WIDTH_24B); break;                                \
    case 4: M(dst, v, VARINT_WIDTH_32B); break;                                \
    case 5: M(dst, v, VARINT_WIDTH_40B); break;                                \
    case 6: M(dst, v, VARINT_WIDTH_48B); break;                                \
    case 7: M(dst, v, VARINT_WIDTH_56B); break;                                \
    case 8: M(dst, v, VARINT_WIDTH_64B); break;                                \
    default: M(dst, v, VARINT_WIDTH_72B); break;                               \
    }
#define LIT_GET(M, src, w, r)                                                  \
    switch (w) {                                                               \
    case 1: M(src, VARINT_WIDTH_8B, r); break;                                 \
    case 2: M(src, VARINT_WIDTH_16B, r); break;                                \
    case 3: M(src, VARINT_WIDTH_24B, r); break;                                \
    case 4: M(src, VARINT_WIDTH_32B, r); break;                                \
    case 5: M(src, VARINT_WIDTH_40B, r); break;                                \
    case 6: M(src, VARINT_WIDTH_48B, r); break;                                \
    case 7: M(src, VARINT_WIDTH_56B, r); break;                                \
    default: M(src, VARINT_WIDTH_64B, r); break;                               \
    }
#define LIT_GETRV(M, src, w, r)                                                \
    switch (w) {                                                               \
    case 1: r = M(src, VARINT_WIDTH_8B); break;                                \
    case 2: r = M(src, VARINT_WIDTH_16B); break;                               \
    case 3: r = M(src, VARINT_WIDTH_24B); break;                               \
    case 4: r = M(src, VARINT_WIDTH_32B); break;                               \
    case 5: r = M(src, VARINT_WIDTH_40B); break;                               \
    case 6: r = M(src, VARINT_WIDTH_48B); break;                               \
    case 7: r = M(src, VARINT_WIDTH_56B); break;                               \
    default: r = M(src, VARINT_WIDTH_64B); break;                              \
    }

#define ARENA 64
#define BASE 20

typedef struct ctx {
    vf_report *rep;
    uint8_t arena[ARENA];
    uint8_t fill;
    unsigned align;
    int lit; /* call the quick macros with literal widths */
    const char *fam;
    const char *put;
    uint64_t v;
} ctx;

#define FAILF(c, site, kind, ...) vf_fail((c)->rep, site, kind, __VA_ARGS__)

static void arena_reset(ctx *c) {
    memset(c->arena, c->fill, ARENA);
}

/* all bytes outside [lo, lo+len) must equal fill */
static int arena_outside_ok(ctx *c, const uint8_t *lo, unsigned len,
                            const char *site) {
    for (unsigned i = 0; i < ARENA; i++) {
        const uint8_t *p = c->arena + i;
        if (p >= lo && p < lo + len) {
            continue;
        }
        if (*p != c->fill) {
            FAILF(c, site, "canary",
                  "%s %s v=%llu: byte at offset %d relative to encoding start "
                  "changed (0x%02x -> 0x%02x), reported length %u",
                  c->fam, c->put, (unsigned long long)c->v, (int)(p - lo),
                  c->fill, *p, len);
            return 0;
        }
    }
    return 1;
}

#define CHECK_LEN(c, site, what, got, want)                                    \
    do {                                                                       \
        if ((unsigned)(got) != (unsigned)(want)) {                             \
            FAILF(c, site, "length", "%s %s v=%llu: %s = %u, expected %u",     \
                  (c)->fam, (c)->put, (unsigned long long)(c)->v, what,        \
                  (unsigned)(got), (unsigned)(want));                          \
            return;                                                            \
        }                                                                      \
    } while (0)

#define CHECK_VAL(c, site, what, got, want)                                    \
    do {                                                                       \
        if ((uint64_t)(got) != (uint64_t)(want)) {                             \
            FAILF(c, site, "value", "%s %s v=%llu: %s returned %llu",          \
                  (c)->fam, (c)->put, (unsigned long long)(c)->v, what,        \
                  (unsigned long long)(got));                                  \
            return;                                                            \
        }                                                                      \
    } while (0)

/* ------------------------------------------------------------------ tagged */
static int tagged_width_legal(uint64_t v, unsigned w) {
    switch (w) {
    case 1:
        return v <= 240;
    case 2:
        return v >= 240 && v <= 2287;
    case 3:
        return v >= 2288 && v <= 67823;
    case 9:
        return 1;
    default:
        return w >= 4 && w <= 8 && (v >> (8 * (w - 1))) == 0;
    }
}

static void do_tagged(ctx *c, unsigned put, uint64_t v, unsigned wextra) {
    static const char *names[] = {"Put64", "Put64FixedWidth",
                                  "Put64FixedWidthQuick_", "PutVarint32"};
    put &= 3;
    c->put = names[put];
    uint8_t *dst = c->arena + BASE + c->align;
    unsigned minimal, len = 0;
    int fixed = 0;
    if (put == 3) {
        v &= 0xffffffffULL;
    }
    c->v = v;
    minimal = vf_ref_len(VF_TAGGED, v);
    arena_reset(c);
    switch (put) {
    case 0:
        len = varintTaggedPut64(dst, v);
        break;
    case 1:
    case 2: {
        /* choose a legal width >= minimal */
        unsigned w = minimal;
        for (unsigned t = 0; t < 9; t++) {
            unsigned cand = minimal + (wextra + t) % (10 - minimal);
            if (tagged_width_legal(v, cand)) {
                w = cand;
                break;
            }
        }
        fixed = (w != minimal);
        if (put == 1) {
            len = varintTaggedPut64FixedWidth(dst, v, (varintWidth)w);
        } else {
            if (c->lit) {
                LIT_PUT(varintTaggedPut64FixedWidthQuick_, dst, v, w)
            } else {
                varintTaggedPut64FixedWidthQuick_(dst, v, w);
            }
            len = w;
        }
        CHECK_LEN(c, "tagged.fixed", "encoder return", len, w);
        break;
    }
    default:
        if (varintTaggedPutVarint32) {
            len = varintTaggedPutVarint32(dst, (uint32_t)v);
        } else if (varintTaggedPut32) {
            len = varintTaggedPut32(dst, (uint32_t)v);
        } else {
            len = varintTaggedPut64(dst, v);
            vf_class("tagged.no32symbol");
        }
        break;
    }
    if (len < 1 || len > 9) {
        FAILF(c, "tagged.put", "range", "%s v=%llu: length %u outside 1..9",
              c->put, (unsigned long long)v, len);
        return;
    }
    if (!fixed) {
        CHECK_LEN(c, "tagged.put", "encoder return vs reference", len, minimal);
        CHECK_LEN(c, "tagged.len", "varintTaggedLen", varintTaggedLen(v), len);
        CHECK_LEN(c, "tagged.len", "varintTaggedLenQuick",
                  varintTaggedLenQuick(v), len);
    }
    if (!arena_outside_ok(c, dst, len, "tagged.put")) {
        return;
    }
    CHECK_LEN(c, "tagged.getlen", "varintTaggedGetLen", varintTaggedGetLen(dst),
              len);
    CHECK_LEN(c, "tagged.getlen", "varintTaggedGetLenQuick_",
              varintTaggedGetLenQuick_(dst), len);
    uint64_t r = ~v;
    unsigned gl = varintTaggedGet(dst, 9, &r);
    CHECK_LEN(c, "tagged.get", "varintTaggedGet return", gl, len);
    CHECK_VAL(c, "tagged.get", "varintTaggedGet", r, v);
    r = ~v;
    gl = varintTaggedGet(dst, (int32_t)len, &r);
    CHECK_LEN(c, "tagged.get", "varintTaggedGet(n=len) return", gl, len);
    CHECK_VAL(c, "tagged.get", "varintTaggedGet(n=len)", r, v);
    r = ~v;
    gl = varintTaggedGet64(dst, &r);
    CHECK_LEN(c, "tagged.get64", "varintTaggedGet64 return", gl, len);
    CHECK_VAL(c, "tagged.get64", "varintTaggedGet64", r, v);
    CHECK_VAL(c, "tagged.get64rv", "varintTaggedGet64ReturnValue",
              varintTaggedGet64ReturnValue(dst), v);
    r = varintTaggedGet64Quick_(dst);
    CHECK_VAL(c, "tagged.get64quick", "varintTaggedGet64Quick_", r, v);
    if (v <= 0xffffffffULL) {
        uint32_t r32 = ~(uint32_t)v;
        if (varintTaggedGetVarint32) {
            gl = varintTaggedGetVarint32(dst, &r32);
        } else if (varintTaggedGet32) {
            gl = varintTaggedGet32(dst, &r32);
        } else {
            gl = len;
            r32 = (uint32_t)v;
        }
        CHECK_LEN(c, "tagged.get32", "32-bit get return", gl, len);
        CHECK_VAL(c, "tagged.get32", "32-bit get", r32, v);
    }
    /* reading must not modify */
    arena_outside_ok(c, dst, len, "tagged.get");
}

/* ---------------------------------------------------------------- external */
static void do_external(ctx *c, int be, unsigned put, uint64_t v,
                        unsigned wextra) {
    static const char *namesLE[] = {"Put", "PutFixedWidth",
                                    "PutFixedWidthQuick_",
                                    "PutFixedWidthQuickMedium_",
                                    "PutFixedWidthBig"};
    static const char *namesBE[] = {"Put", "PutFixedWidth",
                                    "PutFixedWidthQuick_"};
    put %= be ? 3 : 5;
    c->put = be ? namesBE[put] : namesLE[put];
    c->v = v;
    uint8_t *dst = c->arena + BASE + c->align;
    unsigned minimal = vf_ref_extwidth(v);
    unsigned w = minimal + wextra % (9 - minimal);
    unsigned len;
    arena_reset(c);
    if (be) {
        switch (put) {
        case 0:
            len = varintExternalBigEndianPut(dst, v);
            w = minimal;
            CHECK_LEN(c, "externalBE.put", "Put return", len, minimal);
            break;
        case 1:
            varintExternalBigEndianPutFixedWidth(dst, v, (varintWidth)w);
            break;
        default:
            if (c->lit) {
                LIT_PUT(varintExternalBigEndianPutFixedWidthQuick_, dst, v, w)
            } else {
                varintExternalBigEndianPutFixedWidthQuick_(dst, v, w);
            }
            break;
        }
    } else {
        switch (put) {
        case 0:
            len = varintExternalPut(dst, v);
            w = minimal;
            CHECK_LEN(c, "externalLE.put", "Put return", len, minimal);
            break;
        case 1:
            varintExternalPutFixedWidth(dst, v, (varintWidth)w);
            break;
        case 2:
            if (c->lit) {
                LIT_PUT(varintExternalPutFixedWidthQuick_, dst, v, w)
            } else {
                varintExternalPutFixedWidthQuick_(dst, v, w);
            }
            break;
        case 3:
            if (c->lit) {
                LIT_PUT(varintExternalPutFixedWidthQuickMedium_, dst, v, w)
            } else {
                varintExternalPutFixedWidthQuickMedium_(dst, v, w);
            }
            break;
        default:
            varintExternalPutFixedWidthBig(dst, (__uint128_t)v, (varintWidth)w);
            break;
        }
    }
    len = w;
    const char *site = be ? "externalBE.put" : "externalLE.put";
    if (!arena_outside_ok(c, dst, len, site)) {
        return;
    }
    /* width predictors */
    {
        varintWidth e;
        if (be) {
            varintExternalBigEndianUnsignedEncoding(v, e);
        } else {
            varintExternalUnsignedEncoding(v, e);
        }
        CHECK_LEN(c, "external.len", "UnsignedEncoding", e, minimal);
        if (v <= (uint64_t)INT64_MAX) {
            CHECK_LEN(c, "external.len", "varintExternalSignedEncoding",
                      varintExternalSignedEncoding((int64_t)v), minimal);
            CHECK_LEN(c, "external.len", "varintExternalLen",
                      varintExternalLen(v), minimal);
        }
    }
    uint64_t r;
    if (be) {
        r = varintExternalBigEndianGet(dst, (varintWidth)w);
        CHECK_VAL(c, "externalBE.get", "Get", r, v);
        r = ~v;
        if (c->lit) {
            LIT_GET(varintExternalBigEndianGetQuick_, dst, w, r)
        } else {
            varintExternalBigEndianGetQuick_(dst, w, r);
        }
        CHECK_VAL(c, "externalBE.getquick", "GetQuick_", r, v);
    } else {
        r = varintExternalGet(dst, (varintWidth)w);
        CHECK_VAL(c, "externalLE.get", "Get", r, v);
        r = ~v;
        if (c->lit) {
            LIT_GET(varintExternalGetQuick_, dst, w, r)
        } else {
            varintExternalGetQuick_(dst, w, r);
        }
        CHECK_VAL(c, "externalLE.getquick", "GetQuick_", r, v);
        r = ~v;
        if (c->lit) {
            LIT_GET(varintExternalGetQuickMedium_, dst, w, r)
        } else {
            varintExternalGetQuickMedium_(dst, w, r);
        }
        CHECK_VAL(c, "externalLE.getquickmedium", "GetQuickMedium_", r, v);
        if (c->lit) {
            LIT_GETRV(varintExternalGetQuickMediumReturnValue_, dst, w, r)
        } else {
            r = varintExternalGetQuickMediumReturnValue_(dst, w);
        }
        CHECK_VAL(c, "externalLE.getquickmediumrv",
                  "GetQuickMediumReturnValue_", r, v);
        __uint128_t rb = varintBigExternalGet(dst, (varintWidth)w);
        if ((uint64_t)(rb >> 64) != 0) {
            FAILF(c, "externalLE.getbig", "value",
                  "varintBigExternalGet high half non-zero for v=%llu w=%u",
                  (unsigned long long)v, w);
            return;
        }
        CHECK_VAL(c, "externalLE.getbig", "varintBigExternalGet", (uint64_t)rb,
                  v);
    }
    arena_outside_ok(c, dst, len, be ? "externalBE.get" : "externalLE.get");
}

/* ----------------------------------------------------------------- chained */
static void do_chained(ctx *c, unsigned put, uint64_t v) {
    static const char *names[] = {"PutVarint", "_putVarint32"};
    put &= 1;
    c->put = names[put];
    if (put == 1) {
        v &= 0xffffffffULL;
    }
    c->v = v;
    uint8_t *dst = c->arena + BASE + c->align;
    unsigned want = vf_ref_len(VF_CHAINED, v);
    unsigned len;
    arena_reset(c);
    if (put == 0) {
        len = varintChainedPutVarint(dst, v);
    } else {
        uint32_t v32 = (uint32_t)v;
        len = varintChained_putVarint32(dst, v32);
    }
    if (len < 1 || len > 9) {
        FAILF(c, "chained.put", "range", "v=%llu: length %u outside 1..9",
              (unsigned long long)v, len);
        return;
    }
    CHECK_LEN(c, "chained.put", "encoder return vs reference", len, want);
    CHECK_LEN(c, "chained.len", "varintChainedVarintLen",
              varintChainedVarintLen(v), len);
    if (!arena_outside_ok(c, dst, len, "chained.put")) {
        return;
    }
    /* length read back from stored bytes: continuation bits, 9-byte cap */
    {
        unsigned sl = 1;
        while (sl < 9 && (dst[sl - 1] & 0x80)) {
            sl++;
        }
        CHECK_LEN(c, "chained.storedlen", "continuation-bit length", sl, len);
    }
    uint64_t r = ~v;
    unsigned gl = varintChainedGetVarint(dst, &r);
    CHECK_LEN(c, "chained.get", "GetVarint return", gl, len);
    CHECK_VAL(c, "chained.get", "GetVarint", r, v);
    if (v <= 0xffffffffULL) {
        uint32_t r32 = ~(uint32_t)v;
        /* documented: the function "assumes the single-byte case has already
         * been handled" by the macro, so it is only called directly for
         * multi-byte encodings */
        if (dst[0] & 0x80) {
            gl = varintChainedGetVarint32(dst, &r32);
            CHECK_LEN(c, "chained.get32", "GetVarint32 return", gl, len);
            CHECK_VAL(c, "chained.get32", "GetVarint32", r32, v);
        }
        r32 = ~(uint32_t)v;
        gl = varintChained_getVarint32(dst, r32);
        CHECK_LEN(c, "chained.get32macro", "_getVarint32 return", gl, len);
        CHECK_VAL(c, "chained.get32macro", "_getVarint32", r32, v);
    }
    arena_outside_ok(c, dst, len, "chained.get");
}

static void do_csimple(ctx *c, unsigned put, uint64_t v) {
    static const char *names[] = {"Encode64", "Encode32"};
    put &= 1;
    c->put = names[put];
    if (put == 1) {
        v &= 0xffffffffULL;
    }
    c->v = v;
    uint8_t *dst = c->arena + BASE + c->align;
    unsigned want = vf_ref_len(VF_CHAINED_SIMPLE, v);
    unsigned len;
    arena_reset(c);
    if (put == 0) {
        len = varintChainedSimpleEncode64(dst, v);
    } else {
        len = varintChainedSimpleEncode32(dst, (uint32_t)v);
    }
    if (len < 1 || len > 9) {
        FAILF(c, "chainedSimple.put", "range", "v=%llu: length %u outside 1..9",
              (unsigned long long)v, len);
        return;
    }
    CHECK_LEN(c, "chainedSimple.put", "encoder return vs reference", len, want);
    CHECK_LEN(c, "chainedSimple.len", "varintChainedSimpleLength",
              varintChainedSimpleLength(v), len);
    if (!arena_outside_ok(c, dst, len, "chainedSimple.put")) {
        return;
    }
    {
        unsigned sl = 1;
        while (sl < 9 && (dst[sl - 1] & 0x80)) {
            sl++;
        }
        CHECK_LEN(c, "chainedSimple.storedlen", "continuation-bit length", sl,
                  len);
    }
    uint64_t r = ~v;
    unsigned gl = varintChainedSimpleDecode64(dst, &r);
    CHECK_LEN(c, "chainedSimple.get", "Decode64 return", gl, len);
    CHECK_VAL(c, "chainedSimple.get", "Decode64", r, v);
    if (v <= 0xffffffffULL) {
        uint32_t r32 = ~(uint32_t)v;
        gl = varintChainedSimpleDecode32(dst, &r32);
        CHECK_LEN(c, "chainedSimple.get32", "Decode32 return", gl, len);
        CHECK_VAL(c, "chainedSimple.get32", "Decode32", r32, v);
        r32 = ~(uint32_t)v;
        gl = varintChainedSimpleDecode32Fallback(dst, &r32);
        CHECK_LEN(c, "chainedSimple.get32fb", "Decode32Fallback return", gl,
                  len);
        CHECK_VAL(c, "chainedSimple.get32fb", "Decode32Fallback", r32, v);
    }
    arena_outside_ok(c, dst, len, "chainedSimple.get");
}

/* ------------------------------------------------------------------- split */
#define SPLIT_FORWARD(FN, PFX, FAMID, NAME)                                    \
    static void FN(ctx *c, uint64_t v) {                                       \
        c->put = "Put_";                                                       \
        c->v = v;                                                              \
        uint8_t *dst = c->arena + BASE + c->align;                             \
        unsigned want = vf_ref_len(FAMID, v);                                  \
        unsigned len = 0;                                                      \
        arena_reset(c);                                                        \
        PFX##Put_(dst, len, v);                                                \
        if (len < vf_ref_minlen(FAMID) || len > 9) {                           \
            FAILF(c, NAME ".put", "range", "v=%llu: length %u out of range",   \
                  (unsigned long long)v, len);                                 \
            return;                                                            \
        }                                                                      \
        CHECK_LEN(c, NAME ".put", "encoder length vs reference", len, want);   \
        unsigned pl = 0;                                                       \
        PFX##Length_(pl, v);                                                   \
        CHECK_LEN(c, NAME ".len", "Length_", pl, len);                         \
        if (!arena_outside_ok(c, dst, len, NAME ".put")) {                     \
            return;                                                            \
        }                                                                      \
        unsigned gl = 0;                                                       \
        PFX##GetLen_(dst, gl);                                                 \
        CHECK_LEN(c, NAME ".getlen", "GetLen_", gl, len);                      \
        gl = PFX##GetLenQuick_(dst);                                           \
        CHECK_LEN(c, NAME ".getlen", "GetLenQuick_", gl, len);                 \
        uint64_t r = ~v;                                                       \
        gl = 0;                                                                \
        PFX##Get_(dst, gl, r);                                                 \
        CHECK_LEN(c, NAME ".get", "Get_ length", gl, len);                     \
        CHECK_VAL(c, NAME ".get", "Get_", r, v);                               \
        arena_outside_ok(c, dst, len, NAME ".get");                            \
    }

#define SPLIT_REVERSED(FN, PFX, FAMID, NAME)                                   \
    static void FN(ctx *c, int reversedPut, uint64_t v) {                      \
        c->put = reversedPut ? "ReversedPutReversed_" : "ReversedPutForward_"; \
        c->v = v;                                                              \
        unsigned want = vf_ref_len(FAMID, v);                                  \
        unsigned len = 0;                                                      \
        uint8_t *lo, *last;                                                    \
        arena_reset(c);                                                        \
        if (reversedPut) {                                                     \
            last = c->arena + BASE + 12 + c->align;                            \
            PFX##ReversedPutReversed_(last, len, v);                           \
            lo = last - (len - 1);                                             \
        } else {                                                               \
            lo = c->arena + BASE + c->align;                                   \
            PFX##ReversedPutForward_(lo, len, v);                              \
            last = lo + (len - 1);                                             \
        }                                                                      \
        if (len < 1 || len > 9) {                                              \
            FAILF(c, NAME ".rput", "range", "v=%llu: length %u out of range",  \
                  (unsigned long long)v, len);                                 \
            return;                                                            \
        }                                                                      \
        CHECK_LEN(c, NAME ".rput", "encoder length vs reference", len, want);  \
        if (!arena_outside_ok(c, lo, len, NAME ".rput")) {                     \
            return;                                                            \
        }                                                                      \
        /* the type byte is the LAST byte */                                   \
        unsigned gl = 0;                                                       \
        PFX##GetLen_(last, gl);                                                \
        CHECK_LEN(c, NAME ".rgetlen", "GetLen_ on last byte", gl, len);        \
        gl = PFX##GetLenQuick_(last);                                          \
        CHECK_LEN(c, NAME ".rgetlen", "GetLenQuick_ on last byte", gl, len);   \
        uint64_t r = ~v;                                                       \
        gl = 0;                                                                \
        PFX##ReversedGet_(last, gl, r);                                        \
        CHECK_LEN(c, NAME ".rget", "ReversedGet_ length", gl, len);            \
        CHECK_VAL(c, NAME ".rget", "ReversedGet_", r, v);                      \
        arena_outside_ok(c, lo, len, NAME ".rget");                            \
    }

SPLIT_FORWARD(split_fwd, varintSplit, VF_SPLIT, "split")
SPLIT_REVERSED(split_rev, varintSplit, VF_SPLIT, "split")
SPLIT_FORWARD(sfull_fwd, varintSplitFull, VF_SPLIT_FULL, "splitFull")
SPLIT_REVERSED(sfull_rev, varintSplitFull, VF_SPLIT_FULL, "splitFull")
SPLIT_FORWARD(snz_fwd, varintSplitFullNoZero, VF_SPLIT_FULL_NO_ZERO,
              "splitFullNoZero")
SPLIT_REVERSED(snz_rev, varintSplitFullNoZero, VF_SPLIT_FULL_NO_ZERO,
               "splitFullNoZero")
SPLIT_FORWARD(s16_fwd, varintSplitFull16, VF_SPLIT_FULL_16, "splitFull16")

/* ------------------------------------------------------------ sign helpers */
static void do_signed(ctx *c, unsigned field, uint64_t mag, int neg) {
    static const unsigned widths[4] = {3, 5, 6, 7};
    unsigned w = widths[field & 3];
    unsigned bits = 8 * w;
    mag &= (1ULL << (bits - 1)) - 1; /* |v| < 2^(bits-1) */
    int64_t v = neg ? -(int64_t)mag : (int64_t)mag;
    c->fam = "signed";
    c->put = w == 3 ? "24" : w == 5 ? "40" : w == 6 ? "48" : "56";
    c->v = (uint64_t)v;
    uint8_t *dst = c->arena + BASE + c->align;
    arena_reset(c);
    int64_t back;
    uint64_t stored;
    if (w == 3) {
        int32_t x = (int32_t)v;
        varintPrepareSigned32to24_(x);
        stored = (uint64_t)(uint32_t)x;
        if (stored >> bits) {
            FAILF(c, "signed.prepare", "field",
                  "prepare(%lld) for %u-bit field = 0x%llx does not fit",
                  (long long)v, bits, (unsigned long long)stored);
            return;
        }
        varintExternalPutFixedWidth(dst, stored, (varintWidth)w);
        int32_t r = (int32_t)varintExternalGet(dst, (varintWidth)w);
        varintRestoreSigned24to32_(r);
        back = r;
    } else {
        int64_t x = v;
        if (w == 5) {
            varintPrepareSigned64to40_(x);
        } else if (w == 6) {
            varintPrepareSigned64to48_(x);
        } else {
            varintPrepareSigned64to56_(x);
        }
        stored = (uint64_t)x;
        if (stored >> bits) {
            FAILF(c, "signed.prepare", "field",
                  "prepare(%lld) for %u-bit field = 0x%llx does not fit",
                  (long long)v, bits, (unsigned long long)stored);
            return;
        }
        varintExternalPutFixedWidth(dst, stored, (varintWidth)w);
        int64_t r = (int64_t)varintExternalGet(dst, (varintWidth)w);
        if (w == 5) {
            varintRestoreSigned40to64_(r);
        } else if (w == 6) {
            varintRestoreSigned48to64_(r);
        } else {
            varintRestoreSigned56to64_(r);
        }
        back = r;
    }
    if (back != v) {
        FAILF(c, "signed.roundtrip", "value",
              "%u-bit field: %lld stored as 0x%llx restored as %lld", bits,
              (long long)v, (unsigned long long)stored, (long long)back);
        return;
    }
    arena_outside_ok(c, dst, w, "signed.put");
}

/* ------------------------------------------------------------------ driver */
enum { F_SIGNED = VF_NFAMILY, F_COUNT };

static void one(ctx *c, unsigned fam, unsigned put, uint64_t v,
                unsigned wextra) {
    uint64_t hv = v;
    int nontriv = 0;
    switch (fam) {
    case VF_TAGGED:
        c->fam = "tagged";
        do_tagged(c, put, v, wextra);
        nontriv = (put & 3) != 0;
        break;
    case VF_EXTERNAL_LE:
        c->fam = "externalLE";
        do_external(c, 0, put, v, wextra);
        nontriv = (put % 5) != 0;
        break;
    case VF_EXTERNAL_BE:
        c->fam = "externalBE";
        do_external(c, 1, put, v, wextra);
        nontriv = (put % 3) != 0;
        break;
    case VF_CHAINED:
        c->fam = "chained";
        do_chained(c, put, v);
        nontriv = (put & 1);
        break;
    case VF_CHAINED_SIMPLE:
        c->fam = "chainedSimple";
        do_csimple(c, put, v);
        nontriv = (put & 1);
        break;
    case VF_SPLIT:
        c->fam = "split";
        if (put % 3 == 0) {
            split_fwd(c, v);
        } else {
            split_rev(c, put % 3 == 2, v);
            nontriv = 1;
        }
        break;
    case VF_SPLIT_FULL:
        c->fam = "splitFull";
        if (put % 3 == 0) {
            sfull_fwd(c, v);
        } else {
            sfull_rev(c, put % 3 == 2, v);
            nontriv = 1;
        }
        break;
    case VF_SPLIT_FULL_NO_ZERO:
        c->fam = "splitFullNoZero";
        if (v == 0) {
            v = 1; /* documented domain: v >= 1 */
        }
        hv = v;
        if (put % 3 == 0) {
            snz_fwd(c, v);
        } else {
            snz_rev(c, put % 3 == 2, v);
            nontriv = 1;
        }
        break;
    default:
        c->fam = "splitFull16";
        s16_fwd(c, v);
        break;
    }
    /* classes and non-triviality */
    unsigned rl = vf_ref_len((enum vf_family)fam, hv ? hv : (fam == VF_SPLIT_FULL_NO_ZERO ? 1 : 0));
    if (rl >= 3) {
        nontriv = 1;
    }
    {
        /* within +-2 of a table boundary */
        size_t nb;
        const uint64_t *b = vf_boundaries(&nb);
        for (size_t i = 0; i < nb && !nontriv; i++) {
            if (hv - b[i] + 2 <= 4) {
                nontriv = 1;
            }
        }
    }
    {
        char cls[64];
        snprintf(cls, sizeof(cls), "%s.len%u", c->fam, rl);
        vf_class(cls);
        snprintf(cls, sizeof(cls), "%s.%s", c->fam, c->put);
        vf_class(cls);
    }
    if (nontriv) {
        uint64_t h = vf_mix(vf_mix(vf_mix(fam, put % 5 + 8 * (unsigned)c->lit), c->v), wextra % 9);
        vf_nontrivial(h);
    }
}

void vf_run(vf_rd *r, vf_report *rep) {
    ctx c;
    memset(&c, 0, sizeof(c));
    c.rep = rep;
    unsigned fam = vf_u8(r) % F_COUNT;
    unsigned put = vf_u8(r);
    {
        unsigned ab = vf_u8(r);
        c.align = ab & 15;
        c.lit = (ab >> 4) & 1;
    }
    c.fill = vf_u8(r);
    unsigned n = 0;
    vf_desc(rep, "family=%s align=%u%s fill=0x%02x",
            fam == F_SIGNED ? "signed" : vf_family_name[fam], c.align,
            c.lit ? " literal-widths" : "", c.fill);
    do {
        if (fam == F_SIGNED) {
            unsigned field = vf_u8(r);
            uint64_t mag = vf_u64(r);
            int neg = vf_u8(r) & 1;
            do_signed(&c, field, mag, neg);
            vf_desc(rep, " {field=%s v=%lld}", c.put, (long long)c.v);
            vf_class("signed");
            vf_nontrivial(vf_mix(vf_mix(99, field & 3), c.v));
        } else {
            uint64_t v = vf_u64(r);
            unsigned wextra = vf_u8(r);
            one(&c, fam, put, v, wextra);
            vf_desc(rep, " {%s v=%llu wx=%u}", c.put, (unsigned long long)c.v,
                    wextra % 9);
        }
        n++;
        if (n > 1) {
            vf_evals(1);
        }
    } while (!rep->violated && n < 8 && vf_left(r) > 0);
}

/* deterministic sweep: every value within +-300 of every table boundary, for
 * every family and put variant; all sign-helper magnitudes near field edges */
/* exhaustive over the 2^32 domain of the 32-bit entry points (thorough tier,
 * partitioned over processes) */
static void sweep_u32(vf_report *rep) {
    ctx c;
    memset(&c, 0, sizeof(c));
    c.rep = rep;
    c.fill = 0x5A;
    uint64_t part, parts;
    vf_sweep_part(&part, &parts);
    uint64_t lo = (part << 32) / parts, hi = ((part + 1) << 32) / parts;
    uint64_t evals = 0;
    for (uint64_t v = lo; v < hi && !rep->violated; v++) {
        c.align = (unsigned)(v & 15);
        c.fam = "tagged";
        do_tagged(&c, 3, v, 0);
        c.fam = "chained";
        do_chained(&c, 1, v);
        c.fam = "chainedSimple";
        do_csimple(&c, 1, v);
        evals += 3;
    }
    vf_evals(evals);
    vf_class_n("sweep.u32.evals", evals);
    /* two representative distinct hashes so the part is visible in the union */
    vf_nontrivial(vf_mix(0x32, lo));
    vf_nontrivial(vf_mix(0x32, hi - 1));
}

void vf_sweep(vf_report *rep) {
    if (strcmp(vf_sweep_name(), "u32") == 0) {
        sweep_u32(rep);
        return;
    }
    ctx c;
    memset(&c, 0, sizeof(c));
    c.rep = rep;
    c.fill = 0xAA;
    size_t nb;
    const uint64_t *b = vf_boundaries(&nb);
    uint64_t evals = 0;
    for (size_t i = 0; i < nb && !rep->violated; i++) {
        for (int d = -300; d <= 300 && !rep->violated; d++) {
            uint64_t v = b[i] + (uint64_t)(int64_t)d;
            c.align = (unsigned)(v & 15);
            for (unsigned fam = 0; fam < VF_NFAMILY && !rep->violated; fam++) {
                unsigned nput = fam == VF_TAGGED        ? 4
                                : fam == VF_EXTERNAL_LE ? 5
                                : fam == VF_EXTERNAL_BE ? 3
                                : fam == VF_CHAINED || fam == VF_CHAINED_SIMPLE
                                    ? 2
                                : fam == VF_SPLIT_FULL_16 ? 1
                                                          : 3;
                for (unsigned put = 0; put < nput && !rep->violated; put++) {
                    unsigned nw = (put == 0 || fam >= VF_CHAINED) ? 1 : 9;
                    for (unsigned wx = 0; wx < nw && !rep->violated; wx++) {
                        c.lit = (int)((v ^ wx) & 1);
                        one(&c, fam, put, v, wx);
                        evals++;
                    }
                }
            }
        }
    }
    /* sign helpers: magnitudes 0..2^12 and the top 2^12 of each field */
    for (unsigned field = 0; field < 4 && !rep->violated; field++) {
        static const unsigned widths[4] = {3, 5, 6, 7};
        uint64_t top = (1ULL << (8 * widths[field] - 1)) - 1;
        for (uint64_t m = 0; m < 4096 && !rep->violated; m++) {
            for (int neg = 0; neg < 2; neg++) {
                do_signed(&c, field, m, neg);
                do_signed(&c, field, top - m, neg);
                /* single-bit and bit-run magnitudes */
                do_signed(&c, field, (top >> (m % 56)) ^ m, neg);
                evals += 3;
            }
        }
    }
    vf_evals(evals);
    vf_class_n("sweep.evals", evals);
}
