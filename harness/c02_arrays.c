/* C02 - integer-array codecs are lossless, including random access.
 *
 * case layout:  codec:1 variant:1 gate:1  <codec specific>
 *   codec   = byte % 8 : delta, FOR, PFOR, group, dict, RLE, Elias, BP128
 *   variant = encoder entry point / threshold / meta mode (see each do_*)
 *   gate    = (gate & 15) == 15 allows lengths up to 70000 (fixed small share;
 *             otherwise <= 5300)
 *   then an array descriptor (vf_take_array), codec specific extras (PFOR
 *   marker plant, dictionary prefix length, BP128 block reference), 4 x u32
 *   random-access indices, 3 x (u32,u32) block windows (FOR).
 *
 *   directly after the array descriptor: 5 placement bytes (see placement()):
 *   where every buffer of the case lies relative to a 16-byte boundary.
 *
 * oracle: the input array.  The encoded bytes are copied into an exact-size
 * buffer of `written` bytes before any reader sees them; outputs are exact-size
 * buffers of `count` elements; every full decoder, random-access reader and
 * block reader is compared with the input; reported counts equal count.
 *
 * buffer placement is a generated dimension of every case: the property
 * quantifies over all arrays and readers, and where the caller keeps them is
 * part of "every input" (a decoder may not assume a 16-byte aligned
 * destination or source).  Every buffer handed to the library is
 *   [pad | payload] inside one vf_exact_alloc(pad + payload) allocation,
 * so the payload still ends at the ASan redzone / canary, while its start is
 * pad bytes after the (16-byte aligned) start of the allocation:
 *   outputs (uint64_t / uint32_t)  pad = 0..3 elements, a new offset for every
 *                                  output buffer of the case
 *   exact copy of the encoded bytes pad = 0..15 bytes
 *   encoder source arrays           pad = 0..3 elements
 *   encoder destination             pad = 0..15 bytes (slack at the end)
 * The pad is filled with a pattern and checked together with the canary.
 * Block readers additionally decode into `full + start` of one full-size
 * output array (generated windows, and a streaming pass in chunks of a
 * generated size), with the untouched neighbourhood checked. */
#include "vf.h"
#include "vf_arr.h"

#include "varintBP128.h"
#include "varintDelta.h"
#include "varintDict.h"
#include "varintElias.h"
#include "varintFOR.h"
#include "varintGroup.h"
#include "varintPFOR.h"
#include "varintRLE.h"
#include "varintTagged.h"

const char *vf_prop_id = "C02";
const size_t vf_case_maxlen = 200;

enum {
    K_DELTA,
    K_FOR,
    K_PFOR,
    K_GROUP,
    K_DICT,
    K_RLE,
    K_ELIAS,
    K_BP128,
    K_COUNT
};
static const char *const kname[K_COUNT] = {"delta", "for",  "pfor",  "group",
                                           "dict",  "rle",  "elias", "bp128"};

#define MAXIDX 96
#define NPB 16
#define BP_MAXBLK 4
#define PADFILL 0x5C

typedef struct ctx {
    vf_report *rep;
    vf_rd *r;
    unsigned codec, variant, gate;
    /* deterministic sweep: use this array instead of decoding a descriptor */
    const uint64_t *fixed;
    size_t fixedn;
    const char *fixedname;
    vf_arr a;
    int ra;        /* a random-access / block reader was exercised */
    int extra_nt;  /* PFOR with >= 1 exception, BP128 with >= 2 blocks */
    uint64_t salt; /* codec parameters that identify the decoded sub-case */
    size_t idx[MAXIDX];
    size_t nidx;
    char vname[64];
    /* buffer placement (generated, see placement()) */
    unsigned in_off;  /* exact copy of the encoded bytes: 0..15 bytes */
    unsigned src_off; /* encoder source arrays: 0..3 elements */
    unsigned dst_off; /* encoder destination: 0..15 bytes */
    unsigned chunk;   /* streaming block size; 0 = one block of count */
    uint32_t outw;    /* eight 2-bit element offsets, one per output buffer */
    unsigned outk;
    uint64_t fixedplace; /* sweep: placement word instead of case bytes */
    struct {
        void *user;
        uint8_t *base;
        size_t pad;
    } pb[NPB];
    unsigned npb;
} ctx;

#define FAIL(site, kind, ...) vf_fail(c->rep, site, kind, __VA_ARGS__)

#define CHECK_COUNT(site, what, got, want)                                     \
    do {                                                                       \
        if ((uint64_t)(got) != (uint64_t)(want)) {                             \
            FAIL(site, "count", "%s %s: %s = %llu, expected %llu [%s]",        \
                 kname[c->codec], c->vname, what, (unsigned long long)(got),   \
                 (unsigned long long)(want), c->a.desc);                       \
            goto done;                                                         \
        }                                                                      \
    } while (0)

#define CHECK_CANARY(site, p, nelem)                                           \
    do {                                                                       \
        size_t cc_ = pcheck(c, p);                                             \
        if (cc_) {                                                             \
            FAIL(site, "canary",                                               \
                 "%s %s: output buffer of %llu elements (placed %u bytes "     \
                 "into its allocation) was %s [%s]",                           \
                 kname[c->codec], c->vname, (unsigned long long)(nelem),       \
                 (unsigned)ppad(c, p),                                         \
                 cc_ == (size_t)-1 ? "underrun (bytes before it changed)"      \
                                   : "overrun",                                \
                 c->a.desc);                                                   \
            goto done;                                                         \
        }                                                                      \
    } while (0)

/* ----------------------------------------------------------------- helpers */
static int cmp_u64q(const void *a, const void *b) {
    uint64_t x = *(const uint64_t *)a, y = *(const uint64_t *)b;
    return x < y ? -1 : x > y;
}
static int cmp_u32q(const void *a, const void *b) {
    uint32_t x = *(const uint32_t *)a, y = *(const uint32_t *)b;
    return x < y ? -1 : x > y;
}

static void *xmalloc(size_t n) {
    void *p = malloc(n ? n : 1);
    if (!p) {
        abort();
    }
    return p;
}

/* ------------------------------------------------------- buffer placement */
/* Five bytes directly after the array descriptor (exhausted input: every
 * offset 0, one streaming block - the placement every earlier case had):
 *   b0  bits 0..3 byte offset of the encoded copy, bits 4..5 element offset
 *       of the encoder source
 *   b1,b2  eight 2-bit element offsets, consumed by the output buffers of the
 *       case in allocation order
 *   b3  streaming block size for the block readers (0 = the whole array)
 *   b4  bits 0..3 byte offset of the encoder destination
 * In the deterministic sweep the same fields come from a counter hash. */
static void placement(ctx *c) {
    uint64_t w;
    if (c->fixed) {
        w = c->fixedplace;
    } else {
        w = vf_u8(c->r);
        w |= (uint64_t)vf_u16(c->r) << 8;
        w |= (uint64_t)vf_u8(c->r) << 24;
        w |= (uint64_t)vf_u8(c->r) << 32;
    }
    c->in_off = (unsigned)(w & 15);
    c->src_off = (unsigned)((w >> 4) & 3);
    c->outw = (uint32_t)((w >> 8) & 0xffff);
    c->chunk = (unsigned)((w >> 24) & 0xff);
    c->dst_off = (unsigned)((w >> 32) & 15);
    c->outk = 0;
    vf_class(w ? "place.generated" : "place.allZero");
}

/* [pad | payload] in one exact allocation: the payload ends at the redzone /
 * canary, the pad is pattern-filled and checked by pcheck() */
static void *palloc(ctx *c, size_t payload, size_t pad) {
    uint8_t *b = (uint8_t *)vf_exact_alloc(pad + payload);
    memset(b, PADFILL, pad);
    if (c->npb >= NPB) {
        abort();
    }
    c->pb[c->npb].user = b + pad;
    c->pb[c->npb].base = b;
    c->pb[c->npb].pad = pad;
    c->npb++;
    return b + pad;
}
static int pfind(const ctx *c, const void *user) {
    for (unsigned i = 0; i < c->npb; i++) {
        if (c->pb[i].user == user) {
            return (int)i;
        }
    }
    abort();
}
static size_t ppad(const ctx *c, const void *user) {
    return c->pb[pfind(c, user)].pad;
}
/* 0 intact; (size_t)-1 the pad before the payload changed; otherwise the
 * offset + 1 of the first damaged canary byte */
static size_t pcheck(const ctx *c, const void *user) {
    int i = pfind(c, user);
    size_t r = vf_exact_check(c->pb[i].base);
    if (r) {
        return r;
    }
    for (size_t k = 0; k < c->pb[i].pad; k++) {
        if (c->pb[i].base[k] != PADFILL) {
            return (size_t)-1;
        }
    }
    return 0;
}
static void pfree(ctx *c, void *user) {
    if (!user) {
        return;
    }
    int i = pfind(c, user);
    vf_exact_free(c->pb[i].base);
    c->pb[i] = c->pb[--c->npb];
}
static void pfree_all(ctx *c) {
    while (c->npb) {
        c->npb--;
        vf_exact_free(c->pb[c->npb].base);
    }
}

/* class counters from where the buffer really lies (every allocation starts
 * 16-byte aligned, so this is the generated pad mod 16) */
static void note_align(ctx *c, const char *what, const void *p) {
    char b[64];
    unsigned m = (unsigned)((uintptr_t)p & 15);
    if (what[0] == 'i') {
        snprintf(b, sizeof(b), "align.in.%u", m);
    } else {
        snprintf(b, sizeof(b), "align.%s.%umod16", what, m);
    }
    vf_class(b);
    snprintf(b, sizeof(b), "%s.%s.%s", kname[c->codec], what,
             m ? "off16" : "on16");
    vf_class(b);
}

/* exact-size copy of what the encoder reported writing, `pad` bytes into its
 * allocation */
static uint8_t *enc_copy_at(ctx *c, const uint8_t *dst, size_t written,
                            unsigned pad) {
    uint8_t *p = (uint8_t *)palloc(c, written, pad);
    if (written) {
        memcpy(p, dst, written);
    }
    note_align(c, "in", p);
    return p;
}
static uint8_t *enc_copy(ctx *c, const uint8_t *dst, size_t written) {
    return enc_copy_at(c, dst, written, c->in_off);
}

/* encoder destination of cap bytes at the generated byte offset (plain
 * allocation with slack: encoder bounds are property C03); free(*raw) */
static uint8_t *dst_alloc(ctx *c, size_t cap, uint8_t **raw) {
    *raw = (uint8_t *)xmalloc(cap + 16);
    note_align(c, "dst", *raw + c->dst_off);
    return *raw + c->dst_off;
}

static unsigned next_out_off(ctx *c) {
    unsigned o = (c->outw >> (2 * (c->outk & 7))) & 3;
    c->outk++;
    return o;
}
/* exact-size output buffer of n 64-bit elements at the next generated element
 * offset, pre-filled */
static uint64_t *out64(ctx *c, size_t n) {
    uint64_t *p = (uint64_t *)palloc(c, n * sizeof(uint64_t),
                                     next_out_off(c) * sizeof(uint64_t));
    memset(p, 0xA5, n * sizeof(uint64_t));
    note_align(c, "out", p);
    return p;
}
static uint32_t *out32(ctx *c, size_t n) {
    uint32_t *p = (uint32_t *)palloc(c, n * sizeof(uint32_t),
                                     next_out_off(c) * sizeof(uint32_t));
    memset(p, 0xA5, n * sizeof(uint32_t));
    note_align(c, "out", p);
    return p;
}
/* the encoder's source: an exact-size copy of the input at the generated
 * element offset (the input itself stays the oracle) */
static const uint64_t *src64(ctx *c, const uint64_t *v, size_t n) {
    uint64_t *p = (uint64_t *)palloc(c, n * sizeof(uint64_t),
                                     c->src_off * sizeof(uint64_t));
    memcpy(p, v, n * sizeof(uint64_t));
    note_align(c, "src", p);
    return p;
}
static uint32_t *src32(ctx *c, size_t n) {
    uint32_t *p = (uint32_t *)palloc(c, n * sizeof(uint32_t),
                                     c->src_off * sizeof(uint32_t));
    note_align(c, "src", p);
    return p;
}
/* 1 if any of the n elements at p is not the 0xA5 fill */
static int touched64(const uint64_t *p, size_t n) {
    for (size_t i = 0; i < n; i++) {
        if (p[i] != 0xA5A5A5A5A5A5A5A5ULL) {
            return 1;
        }
    }
    return 0;
}
static int touched32(const uint32_t *p, size_t n) {
    for (size_t i = 0; i < n; i++) {
        if (p[i] != 0xA5A5A5A5UL) {
            return 1;
        }
    }
    return 0;
}

/* element-wise comparison of a decoder output with the input; 1 = mismatch */
static int cmp64(ctx *c, const char *site, const char *what,
                 const uint64_t *got, const uint64_t *want, size_t n,
                 size_t base) {
    if (memcmp(got, want, n * sizeof(uint64_t)) == 0) {
        return 0;
    }
    for (size_t i = 0; i < n; i++) {
        if (got[i] != want[i]) {
            FAIL(site, "value",
                 "%s %s: %s returned %llu at index %zu, input was %llu "
                 "(count %zu) [%s]",
                 kname[c->codec], c->vname, what, (unsigned long long)got[i],
                 base + i, (unsigned long long)want[i], c->a.n, c->a.desc);
            return 1;
        }
    }
    return 1;
}
static int cmp32(ctx *c, const char *site, const char *what,
                 const uint32_t *got, const uint32_t *want, size_t n) {
    for (size_t i = 0; i < n; i++) {
        if (got[i] != want[i]) {
            FAIL(site, "value",
                 "%s %s: %s returned %lu at index %zu, input was %lu "
                 "(count %zu) [%s]",
                 kname[c->codec], c->vname, what, (unsigned long)got[i], i,
                 (unsigned long)want[i], n, c->a.desc);
            return 1;
        }
    }
    return 0;
}

/* decode (or, in the sweep, copy) the input array */
static void take(ctx *c, unsigned flags, size_t cap) {
    size_t maxlen = 5300;
    if ((c->gate & 15) == 15 || (vf_tier() == 1 && (c->gate & 7) == 7)) {
        maxlen = 70000;
    }
    if (cap && maxlen > cap) {
        maxlen = cap;
    }
    if (!c->fixed) {
        vf_take_array(c->r, &c->a, maxlen, flags);
        placement(c);
        return;
    }
    placement(c);
    vf_arr *a = &c->a;
    memset(a, 0, sizeof(*a));
    size_t n = c->fixedn;
    if (cap && n > cap) {
        n = cap;
    }
    a->n = n;
    a->v = (uint64_t *)xmalloc(n * sizeof(uint64_t));
    memcpy(a->v, c->fixed, n * sizeof(uint64_t));
    a->shape = VF_SH_RANDOM_WIDTH;
    a->lenclass = 1;
    for (size_t i = 0; i < n; i++) {
        if ((flags & VF_ARR_SDELTA) && (a->v[i] >> 62)) {
            a->v[i] &= (1ULL << 62) - 1;
        }
        if ((flags & VF_ARR_U32)) {
            a->v[i] &= 0xffffffffULL;
        }
        if ((flags & VF_ARR_GE1) && a->v[i] == 0) {
            a->v[i] = 1;
        }
    }
    if (flags & VF_ARR_SORTED) {
        qsort(a->v, n, sizeof(uint64_t), cmp_u64q);
    }
    snprintf(a->desc, sizeof(a->desc), "sweep n=%zu pattern=%s", n,
             c->fixedname);
}

/* indices for the random-access readers: every index of a short array;
 * otherwise the edges, the positions around the table lengths and four
 * generated ones.  Always consumes 4 x u32. */
static void pick_idx(ctx *c, size_t n) {
    uint32_t raw[4];
    for (int i = 0; i < 4; i++) {
        raw[i] = vf_u32(c->r);
    }
    size_t k = 0;
    if (n <= 48) {
        for (size_t i = 0; i < n; i++) {
            c->idx[k++] = i;
        }
    } else {
        static const size_t edges[] = {0,    1,    126,  127,   128,   129,
                                       239,  240,  241,  254,   255,   256,
                                       2286, 2287, 2288, 4095,  4096,  4097,
                                       9999, 10000, 65534, 65535, 65536};
        for (size_t i = 0; i < sizeof(edges) / sizeof(edges[0]); i++) {
            if (edges[i] < n) {
                c->idx[k++] = edges[i];
            }
        }
        c->idx[k++] = n - 1;
        c->idx[k++] = n - 2;
        c->idx[k++] = n / 2;
        for (int i = 0; i < 4; i++) {
            c->idx[k++] = raw[i] % n;
        }
    }
    c->nidx = k;
}

static unsigned bytes_needed(uint64_t x) {
    unsigned w = 1;
    while (w < 8 && (x >> (8 * w))) {
        w++;
    }
    return w;
}
static uint64_t ones_bytes(unsigned w) {
    return w >= 8 ? UINT64_MAX : ((1ULL << (8 * w)) - 1);
}

static void codec_classes(ctx *c) {
    char b[96];
    snprintf(b, sizeof(b), "codec.%s", kname[c->codec]);
    vf_class(b);
    snprintf(b, sizeof(b), "%s.%s", kname[c->codec], c->vname);
    vf_class(b);
    vf_arr_classes(&c->a, "arr");
    if (vf_len_is_table(c->a.n)) {
        snprintf(b, sizeof(b), "%s.tableLength", kname[c->codec]);
        vf_class(b);
    }
    if (c->a.n >= 65535) {
        snprintf(b, sizeof(b), "%s.len>=65535", kname[c->codec]);
        vf_class(b);
    }
}

/* ------------------------------------------------------------------- delta */
/* variant bit0: signed; signed with bits1..2 == 3: values at the INT64 edges
 * with small steps (differences stay representable) */
static void do_delta(ctx *c) {
    int sgn = c->variant & 1;
    int edge = sgn && ((c->variant >> 1) & 3) == 3 && !c->fixed;
    uint8_t *dst = NULL, *dstraw = NULL, *enc = NULL;
    uint64_t *out = NULL;
    snprintf(c->vname, sizeof(c->vname), "%s",
             edge ? "signed.edge" : sgn ? "signed" : "unsigned");
    if (edge) {
        vf_arr *a = &c->a;
        memset(a, 0, sizeof(*a));
        size_t n = 1 + vf_u8(c->r) % 40;
        int top = vf_u8(c->r) & 1;
        a->n = n;
        a->v = (uint64_t *)xmalloc(n * sizeof(uint64_t));
        for (size_t i = 0; i < n; i++) {
            uint64_t d = vf_u16(c->r);
            a->v[i] = top ? (uint64_t)INT64_MAX - d : (uint64_t)INT64_MIN + d;
        }
        a->shape = VF_SH_EXPLICIT;
        snprintf(a->desc, sizeof(a->desc),
                 "n=%zu INT64_%s edge, first distance %llu", n,
                 top ? "MAX" : "MIN",
                 (unsigned long long)(top ? (uint64_t)INT64_MAX - a->v[0]
                                          : a->v[0] - (uint64_t)INT64_MIN));
        placement(c);
    } else {
        take(c, sgn ? VF_ARR_SDELTA : 0, 0);
        if (sgn) {
            /* |v| <= 2^62 leaves one unrepresentable difference (2^63):
             * exclude -2^62 itself */
            for (size_t i = 0; i < c->a.n; i++) {
                if (c->a.v[i] == (uint64_t)(-(int64_t)(1ULL << 62))) {
                    c->a.v[i]++;
                }
            }
        }
    }
    const size_t n = c->a.n;
    const uint64_t *v = c->a.v;
    codec_classes(c);
    const uint64_t *src = src64(c, v, n);
    dst = dst_alloc(c, varintDeltaMaxEncodedSize(n) + 64, &dstraw);
    out = out64(c, n);
    size_t written;
    if (sgn) {
        written = varintDeltaEncode(dst, (const int64_t *)src, n);
        enc = enc_copy(c, dst, written);
        varintDeltaDecode(enc, n, (int64_t *)out);
        vf_class("rd.delta.decode");
        if (cmp64(c, "delta.signed.decode", "varintDeltaDecode", out, v, n,
                  0)) {
            goto done;
        }
        CHECK_CANARY("delta.signed.decode", out, n);
    } else {
        written = varintDeltaEncodeUnsigned(dst, src, n);
        enc = enc_copy(c, dst, written);
        varintDeltaDecodeUnsigned(enc, n, out);
        vf_class("rd.delta.decodeUnsigned");
        if (cmp64(c, "delta.unsigned.decode", "varintDeltaDecodeUnsigned", out,
                  v, n, 0)) {
            goto done;
        }
        CHECK_CANARY("delta.unsigned.decode", out, n);
    }
done:
    free(dstraw);
}

/* --------------------------------------------------------------------- FOR */
/* variant bit0: 0 varintFOREncode, 1 varintFORBatchEncode
 * (variant>>1) % 3: 0 zero-initialised meta, 1 meta == NULL,
 *                   2 meta filled by varintFORAnalyze / varintFORBatchAnalyze
 *                     ("analyze if not already done") */
static void do_for(ctx *c) {
    int batch = c->variant & 1;
    unsigned mm = (c->variant >> 1) % 3;
    static const char *const mmn[3] = {"meta0", "metaNULL", "metaAnalyzed"};
    snprintf(c->vname, sizeof(c->vname), "%s.%s",
             batch ? "batchEncode" : "encode", mmn[mm]);
    uint8_t *dst = NULL, *dstraw = NULL, *enc = NULL;
    uint64_t *out = NULL, *blk = NULL, *full = NULL;
    take(c, 0, 0);
    const size_t n = c->a.n;
    const uint64_t *v = c->a.v;
    codec_classes(c);
    pick_idx(c, n);
    size_t win[5][2];
    for (int i = 0; i < 3; i++) {
        size_t s = vf_u32(c->r) % n;
        size_t z = 1 + vf_u32(c->r) % (n - s);
        win[i][0] = s;
        win[i][1] = z;
    }
    win[3][0] = 0;
    win[3][1] = n;
    win[4][0] = n - 1;
    win[4][1] = 1;
    c->ra = 1;
    const uint64_t *src = src64(c, v, n);

    /* destination: what the codec's own size function asks for this input
     * (the layout of a FOR payload is not fixed by any property), never less
     * than the layout of the pinned tree needs (two tagged varints, a width
     * byte, 8 bytes per offset), plus slack; size bounds are C03's subject */
    size_t forcap = 9 + 1 + 9 + n * 8;
    {
        varintFORMeta am;
        memset(&am, 0, sizeof(am));
        if (batch) {
            varintFORBatchAnalyze(src, n, &am);
        } else {
            varintFORAnalyze(src, n, &am);
        }
        const size_t want = varintFORSize(&am);
        if (want > forcap) {
            forcap = want;
        }
    }
    dst = dst_alloc(c, forcap + 64, &dstraw);
    varintFORMeta meta;
    memset(&meta, 0, sizeof(meta));
    if (mm == 2) {
        if (batch) {
            varintFORBatchAnalyze(src, n, &meta);
        } else {
            varintFORAnalyze(src, n, &meta);
        }
    }
    varintFORMeta *mp = mm == 1 ? NULL : &meta;
    size_t written = batch ? varintFORBatchEncode(dst, src, n, mp)
                           : varintFOREncode(dst, src, n, mp);
    if (written == 0 || written > forcap + 64) {
        FAIL("for.encode", "count",
             "for %s: encoder reported %zu bytes for %zu values [%s]", c->vname,
             written, n, c->a.desc);
        goto done;
    }
    if (mp) {
        CHECK_COUNT("for.encode", "meta.count after encode", meta.count, n);
    }
    enc = enc_copy(c, dst, written);
    CHECK_COUNT("for.getCount", "varintFORGetCount", varintFORGetCount(enc), n);

    out = out64(c, n);
    size_t got = varintFORDecode(enc, out, n);
    vf_class("rd.for.decode");
    CHECK_COUNT("for.decode", "varintFORDecode return", got, n);
    if (cmp64(c, "for.decode", "varintFORDecode", out, v, n, 0)) {
        goto done;
    }
    CHECK_CANARY("for.decode", out, n);
    pfree(c, out);

    out = out64(c, n); /* next generated offset */
    if (n >= 16) {
        vf_class(((uintptr_t)out & 15) ? "for.batchDecode.n>=16.out.off16"
                                       : "for.batchDecode.n>=16.out.on16");
    }
    got = varintFORBatchDecode(enc, out, n);
    vf_class("rd.for.batchDecode");
    CHECK_COUNT("for.batchDecode", "varintFORBatchDecode return", got, n);
    if (cmp64(c, "for.batchDecode", "varintFORBatchDecode", out, v, n, 0)) {
        goto done;
    }
    CHECK_CANARY("for.batchDecode", out, n);
    pfree(c, out);
    out = NULL;

    /* block windows, each into its own exact-size buffer ... */
    for (int i = 0; i < 5; i++) {
        size_t s = win[i][0], z = win[i][1];
        blk = out64(c, z);
        if (z >= 16) {
            vf_class(((uintptr_t)blk & 15) ? "for.decodeBlock.z>=16.out.off16"
                                           : "for.decodeBlock.z>=16.out.on16");
        }
        got = varintFORDecodeBlock(enc, blk, s, z);
        vf_class("rd.for.decodeBlock");
        if (got != z) {
            FAIL("for.decodeBlock", "count",
                 "for %s: varintFORDecodeBlock(start=%zu, size=%zu) returned "
                 "%zu (count %zu) [%s]",
                 c->vname, s, z, got, n, c->a.desc);
            goto done;
        }
        if (memcmp(blk, v + s, z * sizeof(uint64_t)) != 0) {
            char what[96];
            snprintf(what, sizeof(what),
                     "varintFORDecodeBlock(start=%zu, size=%zu)", s, z);
            cmp64(c, "for.decodeBlock", what, blk, v + s, z, s);
            goto done;
        }
        CHECK_CANARY("for.decodeBlock", blk, z);
        pfree(c, blk);
        blk = NULL;
    }

    /* ... and straight into full + start of one full-size output array, as a
     * caller that reassembles the array does: the window must hold the input
     * and up to 32 elements on either side must stay untouched */
    full = out64(c, n);
    vf_class("rd.for.decodeBlock.inPlace");
    for (int i = 0; i < 3; i++) {
        size_t s = win[i][0], z = win[i][1];
        if (z >= 16) {
            vf_class(((uintptr_t)(full + s) & 15)
                         ? "for.decodeBlock.inPlace.z>=16.out.off16"
                         : "for.decodeBlock.inPlace.z>=16.out.on16");
        }
        got = varintFORDecodeBlock(enc, full + s, s, z);
        char what[112];
        snprintf(what, sizeof(what),
                 "varintFORDecodeBlock(start=%zu, size=%zu) into out+start", s,
                 z);
        if (got != z) {
            FAIL("for.decodeBlock.inPlace", "count",
                 "for %s: %s returned %zu (count %zu) [%s]", c->vname, what,
                 got, n, c->a.desc);
            goto done;
        }
        if (cmp64(c, "for.decodeBlock.inPlace", what, full + s, v + s, z, s)) {
            goto done;
        }
        size_t lo = s < 32 ? s : 32, hi = n - (s + z) < 32 ? n - (s + z) : 32;
        if (touched64(full + s - lo, lo) || touched64(full + s + z, hi)) {
            FAIL("for.decodeBlock.inPlace", "bound",
                 "for %s: %s changed elements of the output array outside "
                 "[start, start+size) (count %zu) [%s]",
                 c->vname, what, n, c->a.desc);
            goto done;
        }
        CHECK_CANARY("for.decodeBlock.inPlace", full, n);
        memset(full + s, 0xA5, z * sizeof(uint64_t));
    }
    /* streaming: consecutive blocks of the generated size reassemble the
     * array; what a block has not reached yet must still be untouched */
    {
        size_t B = c->chunk ? c->chunk : n;
        vf_class(B >= n    ? "for.stream.oneBlock"
                 : (B & 1) ? "for.stream.oddBlocks"
                           : "for.stream.evenBlocks");
        int mis = 0;
        for (size_t s = 0; s < n; s += B) {
            size_t z = n - s < B ? n - s : B;
            if (z >= 16 && ((uintptr_t)(full + s) & 15)) {
                mis = 1;
            }
            got = varintFORDecodeBlock(enc, full + s, s, z);
            size_t hi = n - (s + z) < 32 ? n - (s + z) : 32;
            if (got != z || touched64(full + s + z, hi)) {
                FAIL("for.stream", got != z ? "count" : "bound",
                     "for %s: streaming in blocks of %zu: "
                     "varintFORDecodeBlock(start=%zu, size=%zu) into out+start "
                     "returned %zu%s (count %zu) [%s]",
                     c->vname, B, s, z, got,
                     got == z ? " and wrote past the block" : "", n,
                     c->a.desc);
                goto done;
            }
        }
        if (mis) {
            vf_class("for.stream.z>=16.out.off16");
        }
        if (memcmp(full, v, n * sizeof(uint64_t)) != 0) {
            char what[96];
            snprintf(what, sizeof(what),
                     "varintFORDecodeBlock streaming in blocks of %zu", B);
            cmp64(c, "for.stream", what, full, v, n, 0);
            goto done;
        }
        CHECK_CANARY("for.stream", full, n);
    }

    vf_class("rd.for.getAt");
    for (size_t k = 0; k < c->nidx; k++) {
        size_t i = c->idx[k];
        uint64_t g = varintFORGetAt(enc, i);
        if (g != v[i]) {
            FAIL("for.getAt", "value",
                 "for %s: varintFORGetAt(%zu) = %llu, input was %llu (count "
                 "%zu) [%s]",
                 c->vname, i, (unsigned long long)g, (unsigned long long)v[i],
                 n, c->a.desc);
            goto done;
        }
    }
done:
    free(dstraw);
}

/* -------------------------------------------------------------------- PFOR */
/* variant % 3: threshold 90 / 95 / 99
 * (variant / 3) & 3 == 3: plant values whose offset from the minimum is the
 *   all-ones pattern of w bytes at every stride-th position (w, stride and a
 *   "fold the rest into range" bit follow the array descriptor) */
typedef struct pfor_model {
    uint64_t mn, tv, marker;
    unsigned w;
    size_t nexc; /* values above the threshold value */
    size_t neq;  /* in-range values whose offset equals the marker */
} pfor_model;

/* the documented rule: width from (percentile value - min), marker = all ones
 * of that width, values above the percentile value are exceptions */
static void pfor_classify(const uint64_t *sorted, size_t n, unsigned thr,
                          pfor_model *m) {
    size_t ti = (size_t)(((uint64_t)n * thr) / 100);
    if (ti >= n) {
        ti = n - 1;
    }
    m->mn = sorted[0];
    m->tv = sorted[ti];
    m->w = bytes_needed(m->tv - m->mn);
    m->marker = ones_bytes(m->w);
    m->nexc = 0;
    m->neq = 0;
    for (size_t i = n; i-- > 0;) {
        if (sorted[i] > m->tv) {
            m->nexc++;
        } else if (sorted[i] - m->mn == m->marker) {
            m->neq++;
        } else {
            break; /* sorted: nothing further down can be either */
        }
    }
}

static void do_pfor(ctx *c) {
    static const unsigned thrs[3] = {VARINT_PFOR_THRESHOLD_90,
                                     VARINT_PFOR_THRESHOLD_95,
                                     VARINT_PFOR_THRESHOLD_99};
    unsigned thr = thrs[c->variant % 3];
    int plant = ((c->variant / 3) & 3) == 3 && !c->fixed;
    snprintf(c->vname, sizeof(c->vname), "t%u", thr);
    uint8_t *dst = NULL, *dstraw = NULL, *enc = NULL;
    uint64_t *out = NULL, *sorted = NULL;
    take(c, 0, 0);
    const size_t n = c->a.n;
    uint64_t *v = c->a.v;
    if (plant) {
        uint8_t pb = vf_u8(c->r);
        unsigned w = 1 + (pb & 7);
        int fold = (pb >> 3) & 1;
        unsigned stride = 1 + vf_u8(c->r) % 8;
        size_t am = 0;
        for (size_t i = 1; i < n; i++) {
            if (v[i] < v[am]) {
                am = i;
            }
        }
        uint64_t mn = v[am];
        uint64_t ones = ones_bytes(w);
        uint64_t pv = mn + ones; /* may wrap: then it is just another value */
        for (size_t i = 0; i < n; i++) {
            if (i == am) {
                continue;
            }
            if ((n - 1 - i) % stride == 0) {
                v[i] = pv;
            } else if (fold && pv > mn && ones != UINT64_MAX && v[i] > pv) {
                v[i] = mn + (v[i] - mn) % (ones + 1);
            }
        }
        size_t dl = strlen(c->a.desc);
        snprintf(c->a.desc + dl, sizeof(c->a.desc) - dl,
                 " planted min+%u ones-bytes stride %u%s", w, stride,
                 fold ? " folded" : "");
        vf_class("pfor.planted");
        c->salt = vf_mix(c->salt, pb | ((uint64_t)stride << 8));
    }
    codec_classes(c);
    pick_idx(c, n);
    c->ra = 1;

    sorted = (uint64_t *)xmalloc(n * sizeof(uint64_t));
    memcpy(sorted, v, n * sizeof(uint64_t));
    qsort(sorted, n, sizeof(uint64_t), cmp_u64q);
    pfor_model pm;
    pfor_classify(sorted, n, thr, &pm);
    if (pm.nexc > 0) {
        vf_class("pfor.exceptions>=1");
        c->extra_nt = 1;
    }
    if (pm.neq > 0) {
        vf_class("pfor.offsetEqMarker");
        if (!plant) {
            vf_class("pfor.offsetEqMarker.unplanted");
        }
    }
    {
        char b[32];
        snprintf(b, sizeof(b), "pfor.width%u", pm.w);
        vf_class(b);
    }

    /* destination: the codec's own size function (priced from its own
     * analysis) plus slack for the index bytes it under-prices, and never less
     * than the documented layout needs for this input */
    const uint64_t *src = src64(c, v, n);
    varintPFORMeta am;
    memset(&am, 0, sizeof(am));
    varintPFORComputeThreshold(src, (uint32_t)n, thr, &am);
    size_t cap = varintPFORSize(&am) + 4 * (size_t)am.exceptionCount;
    size_t model = 9 + 1 + 9 + n * pm.w + 9 + (pm.nexc + pm.neq) * 14;
    if (cap < model) {
        cap = model;
    }
    dst = dst_alloc(c, cap + 64, &dstraw);

    varintPFORMeta em;
    memset(&em, 0, sizeof(em));
    size_t written = varintPFOREncode(dst, src, (uint32_t)n, thr, &em);
    if (written == 0 || written > cap + 64) {
        FAIL("pfor.encode", "count",
             "pfor t%u: encoder reported %zu bytes for %zu values [%s]", thr,
             written, n, c->a.desc);
        goto done;
    }
    CHECK_COUNT("pfor.encode", "meta.count after encode", em.count, n);
    enc = enc_copy(c, dst, written);
    out = out64(c, n);

    /* reader 1: fresh zeroed meta (reads the header itself); every reader
     * gets a new output buffer at the next generated offset */
    {
        varintPFORMeta dm;
        memset(&dm, 0, sizeof(dm));
        size_t got = varintPFORDecode(enc, out, &dm);
        vf_class("rd.pfor.decode.meta0");
        CHECK_COUNT("pfor.decode", "varintPFORDecode(zeroed meta) return", got,
                    n);
        /* what the decoder leaves in the caller's meta is not a documented
         * output (the header documents the return value only), so it is not
         * read back here */
        if (cmp64(c, "pfor.decode", "varintPFORDecode(zeroed meta)", out, v, n,
                  0)) {
            goto done;
        }
        CHECK_CANARY("pfor.decode", out, n);
    }
    /* reader 2: meta from varintPFORReadMeta */
    varintPFORMeta rm;
    memset(&rm, 0, sizeof(rm));
    varintPFORReadMeta(enc, &rm);
    CHECK_COUNT("pfor.readMeta", "varintPFORReadMeta count", rm.count, n);
    {
        varintPFORMeta dm = rm;
        pfree(c, out);
        out = out64(c, n);
        size_t got = varintPFORDecode(enc, out, &dm);
        vf_class("rd.pfor.decode.readMeta");
        CHECK_COUNT("pfor.decodeReadMeta",
                    "varintPFORDecode(meta from ReadMeta) return", got, n);
        if (cmp64(c, "pfor.decodeReadMeta",
                  "varintPFORDecode(meta from ReadMeta)", out, v, n, 0)) {
            goto done;
        }
        CHECK_CANARY("pfor.decodeReadMeta", out, n);
    }
    /* reader 3: the encoder's meta, as the repository's tests do */
    {
        varintPFORMeta dm = em;
        pfree(c, out);
        out = out64(c, n);
        size_t got = varintPFORDecode(enc, out, &dm);
        vf_class("rd.pfor.decode.encodeMeta");
        CHECK_COUNT("pfor.decodeEncodeMeta",
                    "varintPFORDecode(encoder meta) return", got, n);
        if (cmp64(c, "pfor.decodeEncodeMeta", "varintPFORDecode(encoder meta)",
                  out, v, n, 0)) {
            goto done;
        }
        CHECK_CANARY("pfor.decodeEncodeMeta", out, n);
    }
    /* random access with either meta */
    vf_class("rd.pfor.getAt");
    for (size_t k = 0; k < c->nidx; k++) {
        size_t i = c->idx[k];
        uint64_t g = varintPFORGetAt(enc, (uint32_t)i, &em);
        if (g != v[i]) {
            FAIL("pfor.getAt", "value",
                 "pfor t%u: varintPFORGetAt(%zu, encoder meta) = %llu, input "
                 "was %llu (count %zu) [%s]",
                 thr, i, (unsigned long long)g, (unsigned long long)v[i], n,
                 c->a.desc);
            goto done;
        }
        g = varintPFORGetAt(enc, (uint32_t)i, &rm);
        if (g != v[i]) {
            FAIL("pfor.getAtReadMeta", "value",
                 "pfor t%u: varintPFORGetAt(%zu, meta from ReadMeta) = %llu, "
                 "input was %llu (count %zu) [%s]",
                 thr, i, (unsigned long long)g, (unsigned long long)v[i], n,
                 c->a.desc);
            goto done;
        }
    }
done:
    free(dstraw);
    free(sorted);
}

/* ------------------------------------------------------------------- group */
static void do_group(ctx *c) {
    snprintf(c->vname, sizeof(c->vname), "encode");
    uint8_t *dst = NULL, *dstraw = NULL, *enc = NULL;
    uint64_t *out = NULL;
    take(c, 0, VARINT_GROUP_MAX_FIELDS);
    const size_t n = c->a.n;
    const uint64_t *v = c->a.v;
    codec_classes(c);
    {
        char b[40];
        snprintf(b, sizeof(b), "group.fields%s",
                 n == 1    ? "=1"
                 : n <= 4  ? "2-4"
                 : n <= 16 ? "5-16"
                 : n < 64  ? "17-63"
                           : "=64");
        vf_class(b);
    }
    c->ra = 1;
    const uint64_t *src = src64(c, v, n);
    /* the codec's own size function plus slack (the bound itself is C03's) */
    const size_t gcap = varintGroupSize(src, (uint8_t)n) + 64;
    dst = dst_alloc(c, gcap, &dstraw);
    size_t written = varintGroupEncode(dst, src, (uint8_t)n);
    if (written == 0 || written > gcap) {
        FAIL("group.encode", "count",
             "group: encoder reported %zu bytes for %zu fields [%s]", written,
             n, c->a.desc);
        goto done;
    }
    enc = enc_copy(c, dst, written);
    out = out64(c, n);
    uint8_t fc = 0;
    size_t used = varintGroupDecode(enc, out, &fc, n);
    vf_class("rd.group.decode");
    if (used == 0) {
        FAIL("group.decode", "count",
             "group: varintGroupDecode(maxFields=%zu) reported an error [%s]",
             n, c->a.desc);
        goto done;
    }
    CHECK_COUNT("group.decode", "decoded field count", fc, n);
    if (cmp64(c, "group.decode", "varintGroupDecode", out, v, n, 0)) {
        goto done;
    }
    CHECK_CANARY("group.decode", out, n);
    vf_class("rd.group.getField");
    for (size_t i = 0; i < n; i++) {
        uint64_t g = ~v[i];
        size_t u = varintGroupGetField(enc, (uint8_t)i, &g);
        if (u == 0 || g != v[i]) {
            FAIL("group.getField", u == 0 ? "count" : "value",
                 "group: varintGroupGetField(%zu) returned %zu, value %llu, "
                 "input was %llu (%zu fields) [%s]",
                 i, u, (unsigned long long)g, (unsigned long long)v[i], n,
                 c->a.desc);
            goto done;
        }
    }
done:
    free(dstraw);
}

/* -------------------------------------------------------------------- dict */
/* variant bit0: 0 varintDictEncode, 1 varintDictBuild + EncodeWithDict
 * with bit0 and bit1: the dictionary is built from the whole array and a
 * prefix of it is encoded (shared dictionary; prefix length follows the
 * array descriptor) */
static void do_dict(ctx *c) {
    int with = c->variant & 1;
    int prefix = with && (c->variant & 2);
    snprintf(c->vname, sizeof(c->vname), "%s",
             prefix ? "withDict.prefix" : with ? "withDict" : "encode");
    uint8_t *dst = NULL, *dstraw = NULL, *enc = NULL;
    uint64_t *out = NULL, *dec = NULL;
    varintDict *dict = NULL;
    take(c, 0, 0);
    const uint64_t *v = c->a.v;
    size_t n = c->a.n;
    codec_classes(c);
    const uint64_t *src = src64(c, v, n);
    size_t m = n; /* number of values actually encoded */
    if (prefix) {
        m = 1 + vf_u32(c->r) % n;
        c->salt = vf_mix(c->salt, m);
    }
    size_t written;
    if (with) {
        dict = varintDictCreate();
        if (!dict || varintDictBuild(dict, src, n) != 0) {
            FAIL("dict.build", "count",
                 "dict: varintDictBuild failed for %zu values [%s]", n,
                 c->a.desc);
            goto done;
        }
        dst = dst_alloc(c, varintDictEncodedSizeWithDict(dict, m) + 64,
                        &dstraw);
        written = varintDictEncodeWithDict(dst, dict, src, m);
    } else {
        dst = dst_alloc(c, varintDictEncodedSize(src, n) + 64, &dstraw);
        written = varintDictEncode(dst, src, n);
    }
    if (written == 0) {
        FAIL("dict.encode", "count",
             "dict %s: encoder returned 0 for %zu values [%s]", c->vname, m,
             c->a.desc);
        goto done;
    }
    enc = enc_copy(c, dst, written);
    {
        size_t oc = (size_t)-1;
        dec = varintDictDecode(enc, written, &oc);
        vf_class("rd.dict.decode");
        if (!dec) {
            FAIL("dict.decode", "count",
                 "dict %s: varintDictDecode(len=%zu) returned NULL for %zu "
                 "values [%s]",
                 c->vname, written, m, c->a.desc);
            goto done;
        }
        CHECK_COUNT("dict.decode", "varintDictDecode count", oc, m);
        if (cmp64(c, "dict.decode", "varintDictDecode", dec, v, m, 0)) {
            goto done;
        }
    }
    out = out64(c, m);
    {
        size_t got = varintDictDecodeInto(enc, written, out, m);
        vf_class("rd.dict.decodeInto");
        CHECK_COUNT("dict.decodeInto", "varintDictDecodeInto return", got, m);
        if (cmp64(c, "dict.decodeInto", "varintDictDecodeInto", out, v, m, 0)) {
            goto done;
        }
        CHECK_CANARY("dict.decodeInto", out, m);
    }
done:
    free(dstraw);
    free(dec);
    varintDictFree(dict);
}

/* --------------------------------------------------------------------- RLE */
/* variant bit0: with count header; bit1: meta == NULL */
static void do_rle(ctx *c) {
    int hdr = c->variant & 1;
    int nometa = (c->variant >> 1) & 1;
    snprintf(c->vname, sizeof(c->vname), "%s%s", hdr ? "header" : "plain",
             nometa ? ".metaNULL" : "");
    uint8_t *dst = NULL, *dstraw = NULL, *enc = NULL;
    uint64_t *out = NULL;
    take(c, 0, 0);
    const size_t n = c->a.n;
    const uint64_t *v = c->a.v;
    codec_classes(c);
    pick_idx(c, n);
    c->ra = 1;
    const uint64_t *src = src64(c, v, n);
    dst = dst_alloc(c, varintRLEMaxSize(n) + 64, &dstraw);
    varintRLEMeta meta;
    memset(&meta, 0, sizeof(meta));
    varintRLEMeta *mp = nometa ? NULL : &meta;
    size_t written = hdr ? varintRLEEncodeWithHeader(dst, src, n, mp)
                         : varintRLEEncode(dst, src, n, mp);
    if (written == 0 || written > varintRLEMaxSize(n) + 64) {
        FAIL("rle.encode", "count",
             "rle %s: encoder reported %zu bytes for %zu values [%s]", c->vname,
             written, n, c->a.desc);
        goto done;
    }
    if (mp) {
        CHECK_COUNT("rle.encode", "meta.count after encode", meta.count, n);
    }
    enc = enc_copy(c, dst, written);
    out = out64(c, n);
    const uint8_t *runs = enc;
    if (hdr) {
        CHECK_COUNT("rle.getCount", "varintRLEGetCount", varintRLEGetCount(enc),
                    n);
        size_t got = varintRLEDecodeWithHeader(enc, out, n);
        vf_class("rd.rle.decodeWithHeader");
        CHECK_COUNT("rle.decodeWithHeader", "varintRLEDecodeWithHeader return",
                    got, n);
        if (cmp64(c, "rle.decodeWithHeader", "varintRLEDecodeWithHeader", out,
                  v, n, 0)) {
            goto done;
        }
        CHECK_CANARY("rle.decodeWithHeader", out, n);
        /* The run walker and varintRLEGetAt take a pointer to runs.  The
         * header comment gives the layout [count:tagged][runs...]; no
         * property fixes it and there is no accessor for the header length,
         * so the walk below runs only when the bytes themselves show that
         * layout: the payload is the tagged count followed by exactly what
         * the headerless encoder produces for the same array. */
        runs = NULL;
        {
            const size_t hl = varintTaggedLen(n);
            uint8_t *praw = (uint8_t *)xmalloc(varintRLEMaxSize(n) + 64);
            const size_t pl = varintRLEEncode(praw, src, n, NULL);
            if (written >= hl && pl == written - hl && pl <= varintRLEMaxSize(n) &&
                memcmp(enc + hl, praw, pl) == 0) {
                runs = enc + hl;
                vf_class("rle.header.runsAfterTaggedCount");
            } else {
                vf_class("rle.header.otherLayout");
            }
            free(praw);
        }
        if (!runs) {
            goto done; /* nothing more to read through the API */
        }
    } else {
        size_t got = varintRLEDecode(enc, out, n);
        vf_class("rd.rle.decode");
        CHECK_COUNT("rle.decode", "varintRLEDecode return", got, n);
        if (cmp64(c, "rle.decode", "varintRLEDecode", out, v, n, 0)) {
            goto done;
        }
        CHECK_CANARY("rle.decode", out, n);
    }
    /* run walk */
    {
        const uint8_t *p = runs;
        size_t pos = 0, nruns = 0;
        vf_class("rd.rle.decodeRun");
        while (pos < n) {
            size_t rl = 0;
            uint64_t val = 0;
            size_t used = varintRLEDecodeRun(p, &rl, &val);
            if (rl == 0 || rl > n - pos || used == 0) {
                FAIL("rle.decodeRun", "count",
                     "rle %s: run %zu at position %zu has length %zu (%zu "
                     "bytes), %zu values remain [%s]",
                     c->vname, nruns, pos, rl, used, n - pos, c->a.desc);
                goto done;
            }
            for (size_t j = 0; j < rl; j++) {
                if (v[pos + j] != val) {
                    FAIL("rle.decodeRun", "value",
                         "rle %s: run %zu (length %zu from index %zu) has "
                         "value %llu, input at index %zu was %llu [%s]",
                         c->vname, nruns, rl, pos, (unsigned long long)val,
                         pos + j, (unsigned long long)v[pos + j], c->a.desc);
                    goto done;
                }
            }
            pos += rl;
            p += used;
            nruns++;
        }
        vf_class(nruns == 1 ? "rle.runs=1" : nruns == n ? "rle.runs=n"
                                                       : "rle.runs.mixed");
    }
    vf_class("rd.rle.getAt");
    for (size_t k = 0; k < c->nidx; k++) {
        size_t i = c->idx[k];
        uint64_t g = varintRLEGetAt(runs, i);
        if (g != v[i]) {
            FAIL("rle.getAt", "value",
                 "rle %s: varintRLEGetAt(%zu) = %llu, input was %llu (count "
                 "%zu) [%s]",
                 c->vname, i, (unsigned long long)g, (unsigned long long)v[i],
                 n, c->a.desc);
            goto done;
        }
    }
done:
    free(dstraw);
}

/* ------------------------------------------------------------------- Elias */
/* variant bit0: 0 gamma, 1 delta */
static void do_elias(ctx *c) {
    int delta = c->variant & 1;
    snprintf(c->vname, sizeof(c->vname), "%s", delta ? "delta" : "gamma");
    uint8_t *dst = NULL, *dstraw = NULL, *enc = NULL;
    uint64_t *out = NULL;
    take(c, VF_ARR_GE1, 0);
    const size_t n = c->a.n;
    const uint64_t *v = c->a.v;
    codec_classes(c);
    /* the array encoders clear MaxBytes(count) bytes of the destination */
    size_t cap = delta ? varintEliasDeltaMaxBytes(n) : varintEliasGammaMaxBytes(n);
    const uint64_t *src = src64(c, v, n);
    dst = dst_alloc(c, cap + 64, &dstraw);
    varintEliasMeta meta;
    memset(&meta, 0, sizeof(meta));
    size_t written = delta ? varintEliasDeltaEncodeArray(dst, src, n, &meta)
                           : varintEliasGammaEncodeArray(dst, src, n, &meta);
    /* the decoder is handed meta.totalBits: it must lie inside the bytes the
     * encoder reported (whether the byte count is rounded up from the bit
     * count or padded further is not this property's business) */
    if (written == 0 || written > cap + 64 || meta.totalBits == 0 ||
        meta.totalBits > written * 8) {
        FAIL("elias.encode", "count",
             "elias %s: encoder reported %zu bytes / %zu bits for %zu values "
             "[%s]",
             c->vname, written, meta.totalBits, n, c->a.desc);
        goto done;
    }
    CHECK_COUNT("elias.encode", "meta.count after encode", meta.count, n);
    enc = enc_copy(c, dst, written);
    out = out64(c, n);
    size_t got = delta
                     ? varintEliasDeltaDecodeArray(enc, meta.totalBits, out, n)
                     : varintEliasGammaDecodeArray(enc, meta.totalBits, out, n);
    vf_class(delta ? "rd.elias.deltaDecodeArray" : "rd.elias.gammaDecodeArray");
    const char *site = delta ? "elias.delta.decode" : "elias.gamma.decode";
    CHECK_COUNT(site, "decoded count", got, n);
    if (cmp64(c, site, delta ? "varintEliasDeltaDecodeArray"
                             : "varintEliasGammaDecodeArray",
              out, v, n, 0)) {
        goto done;
    }
    CHECK_CANARY(site, out, n);
done:
    free(dstraw);
}

/* ------------------------------------------------------------------- BP128 */
/* variant % 6: 0 Encode32, 1 Encode64, 2 DeltaEncode32, 3 DeltaEncode64,
 *              4 EncodeBlock32/DecodeBlock32, 5 DeltaEncodeBlock32/...
 * (variant / 6) & 1: meta == NULL for the array encoders */
static void bp_classes(ctx *c, size_t packed, int w64, int w32) {
    if (packed > VARINT_BP128_BLOCK_SIZE) {
        vf_class("bp128.blocks>=2");
        c->extra_nt = 1;
    }
    if (packed % VARINT_BP128_BLOCK_SIZE) {
        vf_class("bp128.partialLast");
    } else if (packed) {
        vf_class("bp128.fullLast");
    }
    if (w64) {
        vf_class("bp128.width64");
    }
    if (w32) {
        vf_class("bp128.width32");
    }
}

static void do_bp128(ctx *c) {
    unsigned mode = c->variant % 6;
    int nometa = (c->variant / 6) & 1;
    static const char *const mn[6] = {"encode32",      "encode64",
                                      "deltaEncode32", "deltaEncode64",
                                      "block32",       "deltaBlock32"};
    snprintf(c->vname, sizeof(c->vname), "%s%s", mn[mode],
             nometa && mode < 4 ? ".metaNULL" : "");
    uint8_t *dst = NULL, *dstraw = NULL, *enc = NULL;
    uint64_t *o64 = NULL;
    uint32_t *in32 = NULL, *o32 = NULL;
    int is32 = mode == 0 || mode == 2 || mode >= 4;
    int sorted = mode == 2 || mode == 3 || mode == 5;
    unsigned flags = (is32 ? VF_ARR_U32 : 0) | (sorted ? VF_ARR_SORTED : 0);
    take(c, flags, mode >= 4 ? BP_MAXBLK * VARINT_BP128_BLOCK_SIZE : 0);
    const size_t n = c->a.n;
    const uint64_t *v = c->a.v;
    codec_classes(c);
    varintBP128Meta meta;
    memset(&meta, 0, sizeof(meta));
    varintBP128Meta *mp = nometa ? NULL : &meta;

    if (mode >= 4) {
        /* 1..4 blocks of exactly 128 values (the array repeated cyclically
         * fills the last one), written one after the other as a caller of
         * the block functions does */
        const size_t B = VARINT_BP128_BLOCK_SIZE;
        const size_t nb = (n + B - 1) / B;
        const size_t T = nb * B;
        in32 = src32(c, T);
        for (size_t i = 0; i < T; i++) {
            in32[i] = (uint32_t)v[i % n];
        }
        uint32_t prev = 0;
        if (mode == 5) {
            qsort(in32, T, sizeof(uint32_t), cmp_u32q);
            uint8_t pb = vf_u8(c->r);
            uint32_t back = vf_u16(c->r);
            switch (pb % 3) {
            case 0:
                prev = 0;
                break;
            case 1:
                prev = in32[0];
                break;
            default:
                prev = in32[0] - (back > in32[0] ? in32[0] : back);
                break;
            }
            c->salt = vf_mix(c->salt, prev);
        }
        c->ra = 1;
        int w32 = 0;
        {
            uint32_t p = prev;
            for (size_t i = 0; i < T; i++) {
                uint32_t x = mode == 5 ? in32[i] - p : in32[i];
                p = in32[i];
                if (x >> 31) {
                    w32 = 1;
                }
            }
        }
        bp_classes(c, T, 0, w32);
        {
            char b[32];
            snprintf(b, sizeof(b), "bp128.block.blocks=%zu", nb);
            vf_class(b);
        }
        /* VARINT_BP128_MAX_BLOCK_BYTES is the header's own per-block bound */
        dst = dst_alloc(c, nb * VARINT_BP128_MAX_BLOCK_BYTES + 64, &dstraw);
        size_t pos[BP_MAXBLK + 1];
        pos[0] = 0;
        for (size_t k = 0; k < nb; k++) {
            uint32_t pk = k ? in32[k * B - 1] : prev;
            size_t w = mode == 4 ? varintBP128EncodeBlock32(dst + pos[k],
                                                            in32 + k * B)
                                 : varintBP128DeltaEncodeBlock32(
                                       dst + pos[k], in32 + k * B, pk);
            if (w == 0 || w > VARINT_BP128_MAX_BLOCK_BYTES) {
                FAIL("bp128.block.encode", "count",
                     "bp128 %s: block encoder reported %zu bytes for block "
                     "%zu [%s]",
                     c->vname, w, k, c->a.desc);
                goto done;
            }
            pos[k + 1] = pos[k] + w;
        }
        const char *site =
            mode == 4 ? "bp128.block.decode" : "bp128.deltaBlock.decode";
        const char *fn = mode == 4 ? "varintBP128DecodeBlock32"
                                   : "varintBP128DeltaDecodeBlock32";
        vf_class(mode == 4 ? "rd.bp128.decodeBlock32"
                           : "rd.bp128.deltaDecodeBlock32");
        /* every block from an exact-size copy of its own bytes (the decoder
         * needs only what the encoder reported for that block) into an
         * exact-size output */
        for (size_t k = 0; k < nb; k++) {
            uint32_t pk = k ? in32[k * B - 1] : prev;
            enc = enc_copy_at(c, dst + pos[k], pos[k + 1] - pos[k],
                              (c->in_off + 5 * (unsigned)k) & 15);
            o32 = out32(c, B);
            size_t used = mode == 4
                              ? varintBP128DecodeBlock32(enc, o32)
                              : varintBP128DeltaDecodeBlock32(enc, o32, pk);
            if (used == 0) {
                FAIL(site, "count",
                     "bp128 %s: block decoder consumed 0 bytes (block %zu) "
                     "[%s]",
                     c->vname, k, c->a.desc);
                goto done;
            }
            char what[64];
            snprintf(what, sizeof(what), "%s (block %zu)", fn, k);
            if (cmp32(c, site, what, o32, in32 + k * B, B)) {
                goto done;
            }
            CHECK_CANARY(site, o32, B);
            pfree(c, o32);
            pfree(c, enc);
            o32 = NULL;
            enc = NULL;
        }
        /* streaming: the blocks as they lie one after the other in one exact
         * copy, each decoded straight into full + 128 * k; blocks not yet
         * reached must be untouched */
        site = mode == 4 ? "bp128.block.stream" : "bp128.deltaBlock.stream";
        vf_class("rd.bp128.block.inPlace");
        enc = enc_copy(c, dst, pos[nb]);
        o32 = out32(c, T);
        for (size_t k = 0; k < nb; k++) {
            uint32_t pk = k ? in32[k * B - 1] : prev;
            size_t used =
                mode == 4
                    ? varintBP128DecodeBlock32(enc + pos[k], o32 + k * B)
                    : varintBP128DeltaDecodeBlock32(enc + pos[k], o32 + k * B,
                                                    pk);
            if (used == 0 || touched32(o32 + (k + 1) * B, T - (k + 1) * B)) {
                FAIL(site, used == 0 ? "count" : "bound",
                     "bp128 %s: %s of block %zu of %zu at byte %zu into "
                     "out + %zu %s [%s]",
                     c->vname, fn, k, nb, pos[k], k * B,
                     used == 0 ? "consumed 0 bytes"
                               : "wrote past its 128 elements",
                     c->a.desc);
                goto done;
            }
        }
        {
            char what[64];
            snprintf(what, sizeof(what), "%s streaming %zu blocks", fn, nb);
            if (cmp32(c, site, what, o32, in32, T)) {
                goto done;
            }
        }
        CHECK_CANARY(site, o32, T);
        goto done;
    }

    dst = dst_alloc(c, varintBP128MaxBytes(n) + 64, &dstraw);
    if (is32) {
        in32 = src32(c, n);
        int w32 = 0;
        uint32_t p = 0;
        for (size_t i = 0; i < n; i++) {
            in32[i] = (uint32_t)v[i];
            uint32_t x = (mode == 2 && i > 0) ? in32[i] - p : in32[i];
            p = in32[i];
            if ((mode == 0 || i > 0) && (x >> 31)) {
                w32 = 1;
            }
        }
        bp_classes(c, mode == 0 ? n : n - 1, 0, w32);
        size_t written = mode == 0 ? varintBP128Encode32(dst, in32, n, mp)
                                   : varintBP128DeltaEncode32(dst, in32, n, mp);
        if (written == 0 || written > varintBP128MaxBytes(n) + 64) {
            FAIL("bp128.encode", "count",
                 "bp128 %s: encoder reported %zu bytes for %zu values [%s]",
                 c->vname, written, n, c->a.desc);
            goto done;
        }
        if (mp) {
            CHECK_COUNT("bp128.encode", "meta.count after encode", meta.count,
                        n);
        }
        enc = enc_copy(c, dst, written);
        o32 = out32(c, n);
        size_t got = mode == 0 ? varintBP128Decode32(enc, o32, n)
                               : varintBP128DeltaDecode32(enc, o32, n);
        vf_class(mode == 0 ? "rd.bp128.decode32" : "rd.bp128.deltaDecode32");
        const char *site = mode == 0 ? "bp128.decode32" : "bp128.deltaDecode32";
        CHECK_COUNT(site, "decoded count", got, n);
        if (cmp32(c, site, mode == 0 ? "varintBP128Decode32"
                                     : "varintBP128DeltaDecode32",
                  o32, in32, n)) {
            goto done;
        }
        CHECK_CANARY(site, o32, n);
    } else {
        int w64 = 0;
        for (size_t i = 0; i < n; i++) {
            uint64_t x = (mode == 3) ? (i > 0 ? v[i] - v[i - 1] : 0) : v[i];
            if (x >> 63) {
                w64 = 1;
            }
        }
        bp_classes(c, mode == 1 ? n : n - 1, w64, 0);
        const uint64_t *src = src64(c, v, n);
        size_t written = mode == 1 ? varintBP128Encode64(dst, src, n, mp)
                                   : varintBP128DeltaEncode64(dst, src, n, mp);
        if (written == 0 || written > varintBP128MaxBytes(n) + 64) {
            FAIL("bp128.encode", "count",
                 "bp128 %s: encoder reported %zu bytes for %zu values [%s]",
                 c->vname, written, n, c->a.desc);
            goto done;
        }
        if (mp) {
            CHECK_COUNT("bp128.encode", "meta.count after encode", meta.count,
                        n);
        }
        enc = enc_copy(c, dst, written);
        if (mode == 1) {
            /* only the 64-bit raw format has a count header */
            CHECK_COUNT("bp128.getCount", "varintBP128GetCount",
                        varintBP128GetCount(enc, written), n);
        }
        o64 = out64(c, n);
        size_t got = mode == 1 ? varintBP128Decode64(enc, o64, n)
                               : varintBP128DeltaDecode64(enc, o64, n);
        vf_class(mode == 1 ? "rd.bp128.decode64" : "rd.bp128.deltaDecode64");
        const char *site = mode == 1 ? "bp128.decode64" : "bp128.deltaDecode64";
        CHECK_COUNT(site, "decoded count", got, n);
        if (cmp64(c, site, mode == 1 ? "varintBP128Decode64"
                                     : "varintBP128DeltaDecode64",
                  o64, v, n, 0)) {
            goto done;
        }
        CHECK_CANARY(site, o64, n);
    }
done:
    free(dstraw);
}

/* ------------------------------------------------------------------ driver */
static void run_one(ctx *c) {
    c->ra = 0;
    c->extra_nt = 0;
    c->salt = 0;
    c->nidx = 0;
    c->npb = 0;
    c->vname[0] = 0;
    memset(&c->a, 0, sizeof(c->a));
    switch (c->codec) {
    case K_DELTA:
        do_delta(c);
        break;
    case K_FOR:
        do_for(c);
        break;
    case K_PFOR:
        do_pfor(c);
        break;
    case K_GROUP:
        do_group(c);
        break;
    case K_DICT:
        do_dict(c);
        break;
    case K_RLE:
        do_rle(c);
        break;
    case K_ELIAS:
        do_elias(c);
        break;
    default:
        do_bp128(c);
        break;
    }
    pfree_all(c);
    if (c->a.v) {
        /* non-trivial: count >= 2 and (max element needs >= 2 bytes, or count
         * within +-1 of a table length, or a random-access / block reader ran,
         * or PFOR had an exception, or BP128 had >= 2 blocks) */
        if (c->a.n >= 2 &&
            (c->ra || c->extra_nt || vf_len_is_table(c->a.n) ||
             vf_arr_max(&c->a) > 0xff)) {
            uint64_t h = vf_mix(vf_mix(c->codec, vf_hash_bytes(7, c->vname,
                                                               strlen(c->vname))),
                                c->salt);
            vf_nontrivial(vf_mix(h, vf_arr_hash(&c->a)));
        }
        vf_arr_free(&c->a);
    }
}

void vf_run(vf_rd *r, vf_report *rep) {
    ctx c;
    memset(&c, 0, sizeof(c));
    c.rep = rep;
    c.r = r;
    c.codec = vf_u8(r) % K_COUNT;
    c.variant = vf_u8(r);
    c.gate = vf_u8(r);
    /* the array is decoded inside the codec function; run_one frees the
     * elements but leaves length and description in place */
    vf_desc(rep, "codec=%s variant=%u ", kname[c.codec], c.variant);
    run_one(&c);
    vf_desc(rep, "(%s) %s", c.vname, c.a.desc);
    vf_desc(rep, " place[in+%u src+%u dst+%u out=%04x chunk=%u]", c.in_off,
            c.src_off, c.dst_off, c.outw, c.chunk);
    if (c.nidx && c.a.n > 48) {
        vf_desc(rep, " idx=[..,%zu,%zu,%zu,%zu]", c.idx[c.nidx - 4],
                c.idx[c.nidx - 3], c.idx[c.nidx - 2], c.idx[c.nidx - 1]);
    }
}

/* deterministic sweep: every codec and encoder variant over the table lengths
 * with four fixed contents.  Contents are chosen so that no PFOR offset
 * equals the exception marker (that class belongs to the generated cases and
 * their shrunk witnesses). */
void vf_sweep(vf_report *rep) {
    static const size_t lens[] = {
        1,    2,    3,    7,    8,    9,    63,    64,    65,    127,  128,
        129,  130,  240,  241,  242,  255,  256,   257,   258,   383,  384,
        385,  2287, 2288, 2289, 4095, 4096, 4097,  10000, 10001, 65535, 65536,
        65537, 67824};
    static const struct {
        unsigned codec, nvar;
    } plan[K_COUNT] = {{K_DELTA, 2}, {K_FOR, 6},  {K_PFOR, 3},  {K_GROUP, 1},
                       {K_DICT, 4},  {K_RLE, 4},  {K_ELIAS, 2}, {K_BP128, 12}};
    static const char *const pname[4] = {"i*3+5", "hash16", "runs7*1000003",
                                         "runs300*golden64"};
    const size_t maxn = 67825;
    uint64_t *buf = (uint64_t *)xmalloc(maxn * sizeof(uint64_t));
    uint64_t evals = 0;
    vf_rd empty = {NULL, 0, 0};
    for (size_t li = 0; li < sizeof(lens) / sizeof(lens[0]) && !rep->violated;
         li++) {
        size_t n = lens[li];
        for (unsigned pat = 0; pat < 4 && !rep->violated; pat++) {
            if (n > 10001 && pat != 1) {
                continue; /* cost: one content for the long arrays */
            }
            for (size_t i = 0; i < n; i++) {
                buf[i] = pat == 0   ? i * 3 + 5
                         : pat == 1 ? (((uint64_t)i + 1) * 2654435761ULL >> 7) &
                                          0xffff
                         : pat == 2 ? (uint64_t)(i / 7) * 1000003ULL
                                    : (uint64_t)(i / 300 + 1) *
                                          0x9E3779B97F4A7C15ULL;
            }
            for (unsigned k = 0; k < K_COUNT && !rep->violated; k++) {
                for (unsigned var = 0; var < plan[k].nvar && !rep->violated;
                     var++) {
                    if (plan[k].codec == K_GROUP && n > 65) {
                        continue;
                    }
                    if (plan[k].codec == K_BP128 && (var % 6) >= 4 && n > 130) {
                        continue;
                    }
                    ctx c;
                    memset(&c, 0, sizeof(c));
                    c.rep = rep;
                    c.r = &empty;
                    c.codec = plan[k].codec;
                    c.variant = var;
                    c.gate = 15;
                    c.fixed = buf;
                    c.fixedn = n;
                    c.fixedname = pname[pat];
                    /* placement varies with the evaluation counter */
                    c.fixedplace = vf_mix(0x5eed, evals) & 0xfffffffffULL;
                    run_one(&c);
                    evals++;
                }
            }
        }
    }
    free(buf);
    vf_evals(evals);
    vf_class_n("sweep.evals", evals);
}
