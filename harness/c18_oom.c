/* C18 - a failed allocation is reported, never a crash, leak or silent
 * corruption.  Fault enumeration: for the chosen allocating API A and generated
 * input x the call is run once fault-free, counting its allocations n(A,x)
 * (the `oom` build renames malloc/calloc/realloc/free inside /repo/src to the
 * interposer of vf_alloc.c), then once per k = 1..n with the k-th allocation
 * returning NULL.
 *
 * case layout:  api:1 state:1 p1:2 p2:1 p3:1 size:1 array-descriptor...
 *   api    % 27 selects the API (table below)
 *   state  container state of the bitmap under test (kind = state % 8: empty,
 *          array-small, array-edge 4095/4096, bitmap-edge 4096/4097,
 *          bitmap-big, runs-single, runs-small, runs-large), pre-built
 *          dictionary (bit 0), PFOR threshold, float precision/mode, adaptive
 *          encoding type (state % 6)
 *   p1..p3 state parameters (start, stride, lengths), value pickers
 *   size   (size & 7) == 7 selects the long-array class of the API
 *   k is enumerated, not drawn.
 *
 * oracle per (A, x, k): no crash / ASan report (process death, captured by the
 * framework); the call returns its documented failure value or a result that
 * passes A's functional oracle (round trip equals the input, set equals the
 * 65536-bit model, analysis results equal those of the fault-free run); after
 * the harness has released what it owns, the interposer's live-block count
 * grew by no more than in the fault-free run; dictionaries and bitmaps are
 * then read back (state must be the pre-call or the post-call model) and used
 * again.
 *
 * Every functional oracle goes through public APIs only.  "Success with
 * output that decodes to something else" is decided by decoding the reported
 * bytes with the library's own decoder - from a zero padded copy (clean value
 * verdict) and from an exact-size copy (a decoder that dies or over-reads on
 * bytes a faulted call reported as a successful encoding is the finding; the
 * framework keeps the in-flight case) - never by parsing the payload: no
 * property fixes the wire layout of PFOR, dictionary, float or bitmap
 * streams, nor the container a bitmap uses.
 *
 * A fault-free run that already fails its functional oracle belongs to
 * C02/C06/C07/C08: the case is skipped and counted (baseline-unusable.<api>).
 *
 * Development aid: VF_C18_ONLY / VF_C18_SKIP (comma separated api-name
 * prefixes) make the harness return immediately for the other APIs, so a
 * campaign can look behind a shallow defect.  Case bytes mean the same with or
 * without the variables.  VF_C18_VERBOSE prints every skipped (fault-free
 * unusable) case to stderr.
 *
 * k runs from n down to 1: on a tree where an entry allocation's failure kills
 * the process, the deeper sites still get their clean verdicts first. */
#include "c18_common.h"

#include "c18_bitmap.h"
#include "c18_codec.h"
#include "c18_dict.h"

const char *vf_prop_id = "C18";
const size_t vf_case_maxlen = 160;

typedef struct api_def {
    const char *name;
    const char *topfn;
    void (*fn)(ctx *);
    unsigned kind; /* 0 plain array, 1 bitmap op with a 16-bit array, 2 adaptive
                      typed, 3 sort-based analysis */
} api_def;

static const api_def g_api[] = {
    {"dict.create", "varintDictCreate", f_dict_create, 0},
    {"bitmap.add", "varintBitmapAdd", f_bm_add, 1},
    {"dict.build", "varintDictBuild", f_dict_build, 0},
    {"dict.encode", "varintDictEncode", f_dict_encode, 0},
    {"dict.encodedsize", "varintDictEncodedSize", f_dict_size, 0},
    {"dict.decode", "varintDictDecode", f_dict_decode, 0},
    {"dict.decodeinto", "varintDictDecodeInto", f_dict_decode_into, 0},
    {"dict.stats", "varintDictGetStats", f_dict_stats, 0},
    {"pfor.threshold", "varintPFORComputeThreshold", f_pfor_threshold, 0},
    {"pfor.encode", "varintPFOREncode", f_pfor_encode, 0},
    {"float.encode", "varintFloatEncode", f_float_encode, 0},
    {"float.decode", "varintFloatDecode", f_float_decode, 0},
    {"adaptive.countunique", "varintAdaptiveCountUnique", f_count_unique, 3},
    {"adaptive.analyze", "varintAdaptiveAnalyze", f_analyze, 3},
    {"adaptive.encode", "varintAdaptiveEncode", f_adaptive_encode, 3},
    {"adaptive.encodewith", "varintAdaptiveEncodeWith", f_adaptive_encode_with, 2},
    {"adaptive.decode", "varintAdaptiveDecode", f_adaptive_decode, 2},
    {"bitmap.create", "varintBitmapCreate", f_bm_create, 1},
    {"bitmap.clone", "varintBitmapClone", f_bm_clone, 1},
    {"bitmap.remove", "varintBitmapRemove", f_bm_remove, 1},
    {"bitmap.addrange", "varintBitmapAddRange", f_bm_add_range, 1},
    {"bitmap.addmany", "varintBitmapAddMany", f_bm_add_many, 1},
    {"bitmap.and", "varintBitmapAnd", f_bm_and, 1},
    {"bitmap.or", "varintBitmapOr", f_bm_or, 1},
    {"bitmap.xor", "varintBitmapXor", f_bm_xor, 1},
    {"bitmap.andnot", "varintBitmapAndNot", f_bm_andnot, 1},
    {"bitmap.decode", "varintBitmapDecode", f_bm_decode, 1},
};
#define NAPI (sizeof(g_api) / sizeof(g_api[0]))

/* ------------------------------------------------------ development filter */
static int name_in_list(const char *list, const char *name) {
    while (list && *list) {
        const char *e = strchr(list, ',');
        size_t len = e ? (size_t)(e - list) : strlen(list);
        if (len && strncmp(name, list, len) == 0) {
            return 1;
        }
        list += len + (e ? 1 : 0);
    }
    return 0;
}
static int api_filtered(const char *name) {
    static int init;
    static const char *only, *skip;
    if (!init) {
        only = getenv("VF_C18_ONLY");
        skip = getenv("VF_C18_SKIP");
        init = 1;
    }
    if (only && *only && !name_in_list(only, name)) {
        return 1;
    }
    return skip && *skip && name_in_list(skip, name);
}

/* tile a short array to `want` elements (the sampled uniqueness estimate and
 * the > 10000 branch of the auto encoder need long inputs) */
static void extend_array(vf_arr *a, size_t want, uint64_t add) {
    uint64_t *v = (uint64_t *)xmalloc(want * sizeof(uint64_t));
    for (size_t i = 0; i < want; i++) {
        v[i] = a->v[i % a->n] + (i / a->n) * add;
    }
    free(a->v);
    a->v = v;
    a->n = want;
}

static void run_k(ctx *c, const api_def *d, int k, long *base_leak) {
    c->k = k;
    c->reported = c->excluded = 0;
    c->failed[0] = 0;
    long before = (long)vf_alloc_live();
    d->fn(c);
    if (c->rep->violated || c->skip) {
        return;
    }
    long leak = (long)vf_alloc_live() - before;
    if (k == 0) {
        *base_leak = leak;
        return;
    }
    char b[128];
    if (leak > *base_leak) {
        vf_fail(c->rep, c->site, "leak",
                "%s: allocation %d of %llu failed (at %s): %ld block(s) obtained "
                "inside the library stay live after everything was released "
                "(%ld after the fault-free run)", c->site, k,
                (unsigned long long)c->n, c->failed, leak, *base_leak);
        return;
    }
    /* evidence: which site failed, what the call did about it */
    snprintf(b, sizeof(b), "site.%s@%s", c->name, c->failed[0] ? c->failed : "none");
    vf_class(b);
    snprintf(b, sizeof(b), "outcome.%s.%s", c->name,
             c->excluded   ? "known-silent-partial"
             : c->reported ? "failure-reported"
                           : "correct-result");
    vf_class(b);
    if (!c->failed[0]) {
        vf_class("injection-not-reached");
    }
    size_t fl = strlen(d->topfn);
    int in_callee = c->failed[0] && !(strncmp(c->failed, d->topfn, fl) == 0 &&
                                      c->failed[fl] == ':');
    if (k > 1 || in_callee) {
        uint64_t h = vf_mix(c->api, ((uint64_t)c->st << 32) | ((uint64_t)c->p1 << 16) |
                                        ((uint64_t)c->p2 << 8) | c->p3);
        h = vf_mix(h, vf_arr_hash(&c->a));
        vf_nontrivial(vf_mix(h, (uint64_t)k));
        if (in_callee) {
            vf_class("nontrivial.callee-site");
        }
    }
}

static void c18_case(vf_rd *r, vf_report *rep) {
    ctx *c = (ctx *)xcalloc(sizeof(ctx));
    c->rep = rep;
    c->api = vf_u8(r) % NAPI;
    c->st = vf_u8(r);
    c->p1 = vf_u16(r);
    c->p2 = vf_u8(r);
    c->p3 = vf_u8(r);
    c->szb = vf_u8(r);
    const api_def *d = &g_api[c->api];
    c->name = d->name;
    c->topfn = d->topfn;
    snprintf(c->site, sizeof(c->site), "%s", d->name);
    if (api_filtered(d->name)) {
        vf_class("filtered-by-env");
        free(c);
        return;
    }
    int big = (c->szb & 7) == 7;
    size_t maxlen = big ? 1200 : 300;
    unsigned flags = 0;
    if (d->kind == 1 && big) {
        maxlen = 4200;
    }
    if (d->kind == 2) {
        c->ftype = c->st % 6;
        snprintf(c->site, sizeof(c->site), "%s.%s", d->name, c18_tname[c->ftype]);
        if (c->ftype == VARINT_ADAPTIVE_BITMAP) {
            flags = VF_ARR_STRICT16;
            maxlen = big ? 4200 : 300;
        } else if (c->ftype == VARINT_ADAPTIVE_DELTA) {
            flags = VF_ARR_SDELTA;
        }
    }
    if (d->kind == 3) {
        maxlen = 300; /* the library sorts these quadratically */
    }
    vf_take_array(r, &c->a, maxlen, flags);
    if (d->kind == 2 && big && c->ftype == VARINT_ADAPTIVE_BITMAP) {
        /* a set around the 4096 array->bitmap conversion of the encoder */
        size_t want = 4090 + (c->p2 & 15);
        extend_array(&c->a, want, 0);
        for (size_t i = 0; i < want; i++) {
            c->a.v[i] = (uint64_t)(c->p1 % 1000) + i * (1 + (c->p3 & 7));
        }
        snprintf(c->a.desc, sizeof(c->a.desc), "n=%zu strict16 start=%u stride=%u",
                 want, c->p1 % 1000, 1 + (c->p3 & 7));
    }
    if (d->kind == 3 && big && (c->p2 & 1)) {
        /* above the exact-analysis limit with contents that mislead a sampled
         * estimate: every k-th element (k = 10, or 2..21) is one common value,
         * all others are distinct wide values; the allocations of the
         * encoder's own confirmation of a sampled choice are fault sites */
        const size_t want = 10001 + c->p1 % 100;
        const unsigned k = (c->p2 & 2) ? 2 + (c->p2 >> 2) % 20 : 10;
        const unsigned phase = (c->p3 & 1) ? (c->p3 >> 1) % k : 0;
        uint64_t s = vf_mix(c->p1, ((uint64_t)c->p2 << 8) | c->p3) | 1;
        const uint64_t common = c->a.v[0];
        extend_array(&c->a, want, 0);
        for (size_t i = 0; i < want; i++) {
            c->a.v[i] = i % k == phase
                            ? common
                            : ((vf_xs(&s) << 20) | (uint64_t)i | (1ULL << 63));
        }
        snprintf(c->a.desc, sizeof(c->a.desc),
                 "n=%zu sampler-fooling k=%u phase=%u common=%llu rest distinct "
                 "64-bit",
                 want, k, phase, (unsigned long long)common);
        vf_class("arr.sampler-fooling>10000");
    } else if (d->kind == 3 && big) {
        extend_array(&c->a, 10001 + c->p1 % 100, (c->p3 & 1) ? 0 : (c->p3 >> 1));
    }
    vf_alloc_fill(0xA5);

    char b[96];
    snprintf(b, sizeof(b), "api.%s", c->site);
    vf_class(b);
    if (d->kind == 1 && d->fn != f_bm_create) {
        snprintf(b, sizeof(b), "state.%s", bs_kind_name[c->st % BS_NKIND]);
        vf_class(b);
    }
    vf_arr_classes(&c->a, "arr");
    vf_desc(rep, "api=%s state=0x%02x p1=%u p2=%u p3=%u %s", c->site, c->st, c->p1,
            c->p2, c->p3, c->a.desc);

    long base_leak = 0;
    run_k(c, d, 0, &base_leak);
    if (!rep->violated && !c->skip) {
        uint64_t n = c->n;
        vf_desc(rep, " n=%llu [", (unsigned long long)n);
        for (uint64_t i = 1; i <= n && i <= 6; i++) {
            vf_desc(rep, "%s%s", i > 1 ? " " : "", c->sites[i]);
        }
        vf_desc(rep, "%s]", n > 6 ? " ..." : "");
        if (n == 0) {
            vf_class("n=0");
        } else if (n > C18_MAXK) {
            vf_class("n>64(truncated)");
            n = C18_MAXK;
        }
        vf_evals(n);
        vf_class_n("triples", n);
        /* last allocation first: failures deep inside a call (hand-written
         * recovery, clean verdicts) are looked at before the entry
         * allocations, whose mishandling tends to kill the process */
        for (uint64_t k = n; k >= 1 && !rep->violated && !c->skip; k--) {
            run_k(c, d, (int)k, &base_leak);
        }
    }
    free(c->enc);
    free(c->fin);
    free(c->fbase);
    vf_arr_free(&c->a);
    free(c);
}

void vf_run(vf_rd *r, vf_report *rep) {
    c18_case(r, rep);
}

/* deterministic sweep: every API in every container state / sub-type with a
 * few fixed pseudo-random tails, so each run fails every reachable allocation
 * site at least once whatever the seeds generate */
void vf_sweep(vf_report *rep) {
    uint64_t s = 0xC18C18C18ULL;
    uint8_t buf[96];
    for (unsigned api = 0; api < NAPI; api++) {
        if (!api_filtered(g_api[api].name)) {
            /* a crash inside the sweep leaves no in-flight case: name the API */
            fprintf(stderr, "C18 sweep: %s\n", g_api[api].name);
            fflush(stderr);
        }
        for (unsigned st = 0; st < 32; st++) {
            for (unsigned t = 0; t < 3; t++) {
                for (size_t i = 0; i < sizeof(buf); i++) {
                    buf[i] = (uint8_t)(vf_xs(&s) >> 24);
                }
                buf[0] = (uint8_t)api;
                buf[1] = (uint8_t)(st < 24 ? st : (vf_xs(&s) >> 8));
                buf[6] = (uint8_t)(t == 2 && (st & 1) ? 7 : 0);
                if (t == 0) {
                    memset(buf + 7, 0, sizeof(buf) - 7);
                }
                vf_rd r = {buf, sizeof(buf), 0};
                vf_report one;
                memset(&one, 0, sizeof(one));
                c18_case(&r, &one);
                if (one.violated) {
                    *rep = one;
                    size_t l = strlen(rep->detail);
                    snprintf(rep->detail + l, sizeof(rep->detail) - l,
                             " | sweep case api=%u st=%u t=%u: %s", api, st, t,
                             one.desc);
                    return;
                }
            }
        }
    }
}
