#!/usr/bin/env python3
"""tools/replay_corpus_on.py <tree> [PROP ...]
Replays every corpus/<PROP>/fixed-*.case and known-*.case against the given tree
(e.g. a scratch worktree of the pinned commit) and prints FAIL/OK per file: on
the pinned tree every witness of a repaired defect must FAIL (it is a genuine
witness), on the repaired tree it must pass."""
import glob, os, sys
V = os.path.dirname(os.path.dirname(os.path.abspath(__file__)))
sys.path.insert(0, os.path.join(V, 'vf'))
tree = os.path.abspath(sys.argv[1])
os.environ['VERIF_REPO'] = tree
os.environ['VF_BUILD'] = '/tmp/vfb-replay-%d' % os.getpid()
import vfmain, props as P
import shutil
props = sys.argv[2:] or sorted(P.PROPS)
for prop in props:
    files = sorted(glob.glob(os.path.join(V, 'corpus', prop, 'fixed-*.case')) +
                   glob.glob(os.path.join(V, 'corpus', prop, 'known-*.case')))
    if not files:
        continue
    spec = P.PROPS[prop]
    cfgs = {spec.get('replay_config', 'asan')}
    bins = {}
    for f in files:
        # a witness found in a particular config carries it in its name
        cfg = spec.get('replay_config', 'asan')
        for c in ('rel', 'dbg', 'oom', 'msan'):
            if '-%s-' % c in os.path.basename(f) or os.path.basename(f).endswith('-%s.case' % c):
                cfg = c
        if cfg not in bins:
            bins[cfg] = vfmain.build(prop, cfg, ['replay'])['replay']
        env = vfmain.base_env(prop, 'quick', [])
        bad, out = vfmain.replay_once(bins[cfg], env, f)
        print('%s %-4s %s %s' % (prop, cfg, 'FAIL' if bad else 'OK  ', os.path.relpath(f, V)), flush=True)
shutil.rmtree(os.environ['VF_BUILD'], ignore_errors=True)
