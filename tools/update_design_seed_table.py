#!/usr/bin/env python3
import os, re, subprocess
V = os.path.dirname(os.path.dirname(os.path.abspath(__file__)))
tab = subprocess.check_output([os.path.join(V, 'tools', 'seed_table.py')], text=True)
p = os.path.join(V, 'DESIGN.md')
s = open(p).read()
s = re.sub(r'<!-- SEED-TABLE-BEGIN -->.*?<!-- SEED-TABLE-END -->',
           lambda m: '<!-- SEED-TABLE-BEGIN -->\n' + tab + '<!-- SEED-TABLE-END -->', s, flags=re.S)
open(p, 'w').write(s)
print('updated')
