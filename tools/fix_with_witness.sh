#!/bin/bash
# tools/fix_with_witness.sh PATCH PROP WITNESS SLUG "WHAT"
# 1. the witness must FAIL on /repo now; 2. apply PATCH as one fix: commit and
# record it; 3. the witness must PASS afterwards.
set -u
cd "$(dirname "$0")/.."
PATCH=$1; PROP=$2; WIT=$3; SLUG=$4; WHAT=$5
out=$(./check $PROP --replay "$WIT" 2>&1); 
if ! echo "$out" | grep -q "^VIOLATION"; then echo "witness does not fail before the fix:"; echo "$out" | tail -5; exit 1; fi
echo "before: $(echo "$out" | grep -E "^FAIL|AddressSanitizer:|Assertion" | head -1 | cut -c1-220)"
tools/apply_fix.py "$PATCH" "$PROP" "$WIT" "$SLUG" "$WHAT" || exit 1
out=$(./check $PROP --replay "corpus/$PROP/fixed-$SLUG.case" 2>&1)
if echo "$out" | grep -q "^VIOLATION"; then echo "STILL FAILS after the fix:"; echo "$out" | tail -5; exit 1; fi
echo "after: OK"
