#!/bin/bash
# tools/ingest_seed.sh <scratch-worktree> <new-seed-id> <property>
# Copies a sub-agent's deliverables (OUT/patch.diff, demo*, build.sh, notes.md)
# into seeded/<id>/, verifies them independently (tools/verify_seed.sh) and, if
# verified, runs the property's check against the change (tools/run_seeds.py,
# with and without the deterministic sweeps). Rejected seeds are removed again.
set -u
W=$1; ID=$2; P=$3
V=$(cd "$(dirname "$0")/.." && pwd)
D=$V/seeded/$ID
[ -f "$W/OUT/patch.diff" ] || { echo "$ID: no patch.diff"; exit 2; }
mkdir -p "$D"
cp "$W"/OUT/patch.diff "$W"/OUT/build.sh "$W"/OUT/notes.md "$D"/ 2>/dev/null
cp "$W"/OUT/demo*.c "$W"/OUT/*.h "$D"/ 2>/dev/null
out=$("$V/tools/verify_seed.sh" "$D" 2>&1)
echo "$out" | sed "s/^/$ID: /"
if ! echo "$out" | grep -q SEED-VERIFIED; then rm -rf "$D"; echo "$ID: REJECTED"; exit 1; fi
python3 - "$D" "$ID" "$P" <<'PY'
import json,sys,os
d,i,p=sys.argv[1:]
notes=open(os.path.join(d,'notes.md')).read() if os.path.exists(os.path.join(d,'notes.md')) else ''
json.dump({"id":i,"breaks_property":p,"also_breaks":[],"summary":"","needs_to_manifest":"",
 "author":"independent sub-agent given only the property text and a scratch worktree (round 5, based on the tree with all repairs applied)",
 "verified_by":"tools/verify_seed.sh seeded/%s (fresh scratch worktree): demo exit 0 on the original, patch applies, build ok, ctest 13/13 pass, demo exits non-zero with the patch"%i},
 open(os.path.join(d,'meta.json'),'w'),indent=1)
PY
cd "$V" && python3 tools/run_seeds.py "$ID" && python3 tools/run_seeds.py "$ID" --no-sweep
