#!/usr/bin/env python3
"""tools/try_mutation.py PROP[,PROP...] [--base DIR] [--ctest] [--seeds 1,2,3] [--tier quick]
                          [--patch FILE | FILE OLD NEW [FILE OLD NEW ...]]

Sensitivity check: copies the tree (default /repo) to a scratch directory outside
/repo and /verif, plants a mutation (exact text replacement, which must match
exactly once per triple, or a patch file), runs the named checks against the
copy and reports whether each raised a VIOLATION; optionally also confirms that
the 13 ctest programs still pass with the mutation. The copy and its build
output are removed afterwards."""
import argparse, os, shutil, subprocess, sys, tempfile, time

V = os.path.dirname(os.path.dirname(os.path.abspath(__file__)))
ap = argparse.ArgumentParser()
ap.add_argument('props')
ap.add_argument('--base', default='/repo')
ap.add_argument('--ctest', action='store_true')
ap.add_argument('--seeds', default='1')
ap.add_argument('--tier', default='quick')
ap.add_argument('--cases', default=None)
ap.add_argument('--patch')
ap.add_argument('--keep', action='store_true')
ap.add_argument('edits', nargs='*')
a = ap.parse_intermixed_args()

tmp = tempfile.mkdtemp(prefix='mut-', dir='/tmp')
try:
    for d in ('src', 'CMakeLists.txt', 'examples', 'cmake', 'scripts', 'tools', 'util', 'docs', 'README.md'):
        s = os.path.join(a.base, d)
        if os.path.isdir(s):
            shutil.copytree(s, os.path.join(tmp, d))
        elif os.path.exists(s):
            shutil.copy(s, os.path.join(tmp, d))
    if a.patch:
        r = subprocess.run(['git', 'apply', '--whitespace=nowarn', os.path.abspath(a.patch)], cwd=tmp)
        if r.returncode != 0:
            # try with patch(1) fuzz
            r = subprocess.run(['patch', '-p1', '-i', os.path.abspath(a.patch)], cwd=tmp)
            if r.returncode != 0:
                print('MUTATION-ERROR patch does not apply')
                sys.exit(3)
    ed = a.edits
    assert len(ed) % 3 == 0, 'edits come in FILE OLD NEW triples'
    for i in range(0, len(ed), 3):
        f, old, new = ed[i:i + 3]
        p = os.path.join(tmp, f)
        s = open(p).read()
        n = s.count(old)
        if n != 1:
            print('MUTATION-ERROR %s: pattern matches %d times: %r' % (f, n, old))
            sys.exit(3)
        open(p, 'w').write(s.replace(old, new))
    if a.ctest:
        b = os.path.join(tmp, '_build')
        r = subprocess.run('cmake -G Ninja -S %s -B %s -DCMAKE_BUILD_TYPE=RelWithDebInfo >/dev/null 2>&1 && cmake --build %s >/dev/null 2>&1 && ctest --test-dir %s -j8 --timeout 900 2>&1 | tail -3' % (tmp, b, b, b),
                           shell=True, stdout=subprocess.PIPE, text=True)
        ok = '100% tests passed' in r.stdout
        print('CTEST %s' % ('pass' if ok else 'FAIL'), r.stdout.strip().splitlines()[-1:] if not ok else '')
        shutil.rmtree(b, ignore_errors=True)
    for prop in a.props.split(','):
        for seed in a.seeds.split(','):
            env = dict(os.environ, VERIF_REPO=tmp, VF_BUILD=os.path.join(tmp, 'vfbuild'),
                       VF_FAILDIR=os.path.join(tmp, 'failures'))
            cmd = [os.path.join(V, 'check'), prop, '--tier', a.tier, '--seed', seed]
            if a.cases:
                cmd += ['--cases', a.cases]
            t0 = time.time()
            r = subprocess.run(cmd, stdout=subprocess.PIPE, stderr=subprocess.STDOUT, text=True, env=env, cwd=V)
            viol = [l for l in r.stdout.splitlines() if l.startswith('VIOLATION')]
            sites = [l for l in r.stdout.splitlines() if 'violation via' in l]
            print('%s seed=%s rc=%d %s %.0fs %s' % (prop, seed, r.returncode,
                  'CAUGHT' if viol else 'MISSED', time.time() - t0, sites[:1]))
            if r.returncode not in (0, 1):
                print(r.stdout[-2000:])
finally:
    if not a.keep:
        shutil.rmtree(tmp, ignore_errors=True)
    else:
        print('kept', tmp)
