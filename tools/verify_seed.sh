#!/bin/bash
# tools/verify_seed.sh <seeded-dir>   e.g. seeded/C05-a
# Independently confirms a seeded change in a fresh scratch worktree of /repo:
#  (1) the patch applies, the tree builds and the 13 ctest programs pass with it;
#  (2) the demonstration passes on the original code and fails with the patch.
# The scratch worktree and its build output are removed afterwards.
set -u
D=$(cd "$1" && pwd)
BASE=${2:-HEAD}
W=/tmp/vs-$(basename "$D")-$$
git -C /repo worktree add -q --detach "$W" "$BASE" || exit 2
trap 'git -C /repo worktree remove --force "$W" 2>/dev/null; rm -rf "$W"' EXIT
cd "$W"
mkdir -p OUT && cp "$D"/demo* "$D"/build.sh OUT/ 2>/dev/null
cp "$D"/*.c "$D"/*.h OUT/ 2>/dev/null
run_demo() { (cd OUT && bash ./build.sh >/dev/null 2>&1; ./demo >demo.out 2>&1; echo $?); }
orig=$(run_demo)
echo "demo on original code: exit $orig"
git apply --whitespace=nowarn "$D/patch.diff" || { echo "PATCH DOES NOT APPLY"; exit 3; }
cmake -G Ninja -S . -B _build -DCMAKE_BUILD_TYPE=RelWithDebInfo >/dev/null 2>&1 && cmake --build _build >build.log 2>&1
bstat=$?
ct=$(ctest --test-dir _build -j8 --timeout 900 2>&1 | grep -E "tests passed|tests failed" | tail -1)
echo "build with patch: exit $bstat; ctest: $ct"
rm -rf _build
mut=$(run_demo)
echo "demo with patch: exit $mut"; tail -3 OUT/demo.out
if [ "$orig" = 0 ] && [ "$mut" != 0 ] && [ $bstat = 0 ] && echo "$ct" | grep -q "100% tests passed"; then echo "SEED-VERIFIED"; else echo "SEED-REJECTED"; fi
