#!/usr/bin/env python3
"""tools/run_seeds.py [seed-id ...] [--no-sweep] [--tier quick]
Runs each seeded change of /verif/seeded/ against the check of the property it
breaks (and the ones listed in also_breaks) in a scratch copy of /repo, and
records which checks caught it in seeded/<id>/meta.json (detected_by)."""
import json, os, subprocess, sys
V = os.path.dirname(os.path.dirname(os.path.abspath(__file__)))
args = [a for a in sys.argv[1:] if not a.startswith('--')]
nosweep = '--no-sweep' in sys.argv
ids = args or sorted(os.listdir(os.path.join(V, 'seeded')))
for sid in ids:
    d = os.path.join(V, 'seeded', sid)
    mp = os.path.join(d, 'meta.json')
    if not os.path.exists(mp):
        continue
    meta = json.load(open(mp))
    res = {}
    for prop in [meta['breaks_property']] + meta.get('also_breaks', []):
        env = dict(os.environ)
        if nosweep:
            env['VF_NO_SWEEP'] = '1'
        r = subprocess.run([os.path.join(V, 'tools', 'try_mutation.py'), prop, '--patch',
                            os.path.join(d, 'patch.diff')], stdout=subprocess.PIPE,
                           stderr=subprocess.STDOUT, text=True, env=env, cwd=V)
        line = [l for l in r.stdout.splitlines() if l.startswith(prop + ' seed=')]
        res[prop] = line[-1] if line else ('ERROR ' + r.stdout[-300:])
        print(sid, res[prop], flush=True)
    key = 'detected_by_generated_tiers_only' if nosweep else 'detected_by'
    meta[key] = res
    json.dump(meta, open(mp, 'w'), indent=1)
