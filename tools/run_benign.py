#!/usr/bin/env python3
"""tools/run_benign.py [id ...]  - false-alarm test: every check must stay quiet
on a behaviour-preserving change. Map of patch id -> checks is below (from the
authors' notes: 'potentially affected')."""
import os, subprocess, sys
V = os.path.dirname(os.path.dirname(os.path.abspath(__file__)))
MAP = {
 'B2-1': 'C08,C18,C15,C06,C03,C14', 'B2-2': 'C08,C18,C15', 'B2-3': 'C08,C06,C03,C14,C15,C13,C16,C18',
 'B3-1': 'C02,C03,C06,C13,C14,C15,C18', 'B3-2': 'C02,C03,C06,C15,C16,C04', 'B3-3': 'C18,C15,C17,C02,C03,C06',
 'B4-1': 'C02,C03,C04,C13,C14,C15,C16,C17', 'B4-2': 'C07,C03,C15,C16,C17,C18', 'B4-3': 'C02,C03,C13,C15,C16,C17',
 'B5-1': 'C01,C04,C05,C12,C14,C02,C03,C10,C16,C17', 'B5-2': 'C09,C17', 'B5-3': 'C10,C11,C09,C17',
 'BX-1': 'C10,C17', 'BX-2': 'C09,C17', 'BX-3': 'C12,C17,C01,C04,C05', 'BX-4': 'C11,C17',
 'BX-5': 'C02,C03,C06,C13,C15,C16,C17,C18', 'BX-6': 'C02,C03,C13,C14,C15,C16,C17',
 'BX-7': 'C07,C03,C15,C16,C17,C18', 'BX-8': 'C02,C03,C06,C13,C15,C16,C17,C18',
 'B1-1': 'C06,C03,C02,C13,C15,C16,C18', 'B1-2': 'C06,C03,C02,C13,C15,C16,C18', 'B1-3': 'C06,C03,C02,C13,C15,C16,C18',
}
ids = [a for a in sys.argv[1:]] or sorted(MAP)
for bid in ids:
    patch = os.path.join(V, 'benign', bid, 'patch.diff')
    if not os.path.exists(patch):
        continue
    r = subprocess.run([os.path.join(V, 'tools', 'try_mutation.py'), MAP[bid], '--patch', patch, '--ctest'],
                       stdout=subprocess.PIPE, stderr=subprocess.STDOUT, text=True, cwd=V)
    for l in r.stdout.splitlines():
        if ' seed=' in l or l.startswith('CTEST') or 'ERROR' in l:
            print(bid, l.replace('MISSED', 'quiet').replace('CAUGHT', 'ALARM'), flush=True)
