#!/usr/bin/env python3
"""Regenerates MANIFEST.json from vf/props.py (single source of truth)."""
import json, os, sys
V = os.path.dirname(os.path.dirname(os.path.abspath(__file__)))
sys.path.insert(0, os.path.join(V, 'vf'))
import props as P
ALL = ['C%02d' % i for i in range(1, 19)]
checks = []
READY = set(open(os.path.join(V, 'vf', 'ready.txt')).read().split())
for pid in ALL:
    if pid not in P.PROPS or pid not in READY or not P.PROPS[pid].get('claimed', True):
        continue
    s = P.PROPS[pid]
    checks.append({
        'property_id': pid,
        'quick_cmd': './check %s --tier quick' % pid,
        'thorough_cmd': './check %s --tier thorough' % pid,
        'evidence_file': '/verif/evidence/%s.json' % pid,
        'replay_cmd_template': './check %s --replay {path}' % pid,
        'engine': 'vf',
        'level_claimed': {
            'category': s.get('level', 'exploration'),
            'text': s['level_text'],
            'design_ref': 'DESIGN.md section 3, %s' % pid,
        },
        'level_note': s['level_note'],
        'technique': s.get('technique', 'property-based testing (rapidcheck) + coverage-guided fuzzing (libFuzzer) against an explicit oracle'),
    })
na = [{'property_id': pid, 'reason': P.NOT_APPLICABLE.get(pid, 'check not built yet in this revision of /verif; see DESIGN.md section 9 for the order')}
      for pid in ALL if pid not in [c['property_id'] for c in checks]]
m = {
    'version': 1,
    'setup_cmd': './setup.sh',
    'hooks': {
        'guard': 'MATTSTA_VARINT_VERIF',
        'enable': 'no source hooks are needed: every check compiles /repo/src/*.c and the headers directly into its harness; allocation control for C18 is a command-line -include of harness/vf_alloc.h, not a change to /repo',
        'baseline_off_cmd': 'cmake -G Ninja -S /repo -B /repo/_build >/dev/null && cmake --build /repo/_build >/dev/null && ctest --test-dir /repo/_build -j8 --timeout 900',
        'source_commits': [],
        'add_only': True,
    },
    'engines': [{
        'name': 'vf',
        'path': '/verif/check',
        'serves_properties': [c['property_id'] for c in checks],
        'kind_free_text': 'byte-string cases decoded by per-property harnesses (harness/cNN_*.c); rapidcheck driver for seeded, shrinking, counted campaigns; libFuzzer driver for coverage-guided campaigns (thorough tier); plain C replay driver for the regression corpus, deterministic sweeps and MSan/TSan configurations; ASan in every check',
    }],
    'checks': checks,
    'not_applicable': na,
    'notes': 'Repairs of genuine defects are unguarded fix: commits in /repo, recorded in known_findings.json; see DESIGN.md section 6.',
}
json.dump(m, open(os.path.join(V, 'MANIFEST.json'), 'w'), indent=1)
print('MANIFEST.json: %d checks, %d not_applicable' % (len(checks), len(na)))
