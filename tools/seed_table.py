#!/usr/bin/env python3
"""prints a markdown table of the seeded changes and the checks that detect
them (from seeded/*/meta.json)"""
import json, os, re
V = os.path.dirname(os.path.dirname(os.path.abspath(__file__)))
rows = []
for sid in sorted(os.listdir(os.path.join(V, 'seeded'))):
    mp = os.path.join(V, 'seeded', sid, 'meta.json')
    if not os.path.exists(mp):
        continue
    m = json.load(open(mp))
    def fmt(d):
        if not isinstance(d, dict):
            return str(d)
        out = []
        for prop, line in d.items():
            mm = re.search(r'(CAUGHT|MISSED)', line)
            site = re.search(r"violation via (\S+) in config (\S+) at ([^'\]]+)", line)
            if mm and mm.group(1) == 'CAUGHT' and site:
                out.append('%s: %s (%s, %s)' % (prop, site.group(3).strip(), site.group(1), site.group(2)))
            elif mm:
                out.append('%s: %s' % (prop, mm.group(1).lower()))
            else:
                out.append('%s: %s' % (prop, line[:60]))
        return '; '.join(out)
    rows.append((sid, m['breaks_property'], m['summary'], m['needs_to_manifest'],
                 fmt(m.get('detected_by')), fmt(m.get('detected_by_generated_tiers_only', '-'))))
print('| id | breaks | change | needs | detected by (quick tier, seed 1) | generated tiers only (no sweep) |')
print('|---|---|---|---|---|---|')
for r in rows:
    print('| ' + ' | '.join(x.replace('|', '/').replace('\n', ' ') for x in r) + ' |')
