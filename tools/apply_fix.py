#!/usr/bin/env python3
"""tools/apply_fix.py <patch> <property> <witness.case> <slug> <what failed>

Applies a prototype repair from notes/candidate-fixes to /repo as ONE unguarded
"fix:" commit, stores the shrunk witness in corpus/<property>/ and records the
repair in known_findings.json as fixed.  Used only while building /verif; the
checks never call it."""
import json, os, re, shutil, subprocess, sys
V = os.path.dirname(os.path.dirname(os.path.abspath(__file__)))
patch, prop, witness, slug, what = sys.argv[1:6]
patch = os.path.abspath(patch)
if witness != "-": witness = os.path.abspath(witness)
txt = open(patch).read()
m = re.search(r'^Subject: (?:\[PATCH[^\]]*\] )?(.*?)\n(?=\S*\n|---|\n)', txt, re.S | re.M)
subject = ' '.join(m.group(1).split())
assert subject.startswith('fix:'), subject
subprocess.check_call(['git', '-C', '/repo', 'apply', '--whitespace=nowarn', patch])
subprocess.check_call(['git', '-C', '/repo', 'commit', '-q', '-a', '-m', subject])
commit = subprocess.check_output(['git', '-C', '/repo', 'rev-parse', '--short', 'HEAD'], text=True).strip()
os.makedirs(os.path.join(V, 'corpus', prop), exist_ok=True)
dst = os.path.join('corpus', prop, 'fixed-%s.case' % slug)
if witness != '-':
    shutil.copy(witness, os.path.join(V, dst))
kf = os.path.join(V, 'known_findings.json')
data = json.load(open(kf)) if os.path.exists(kf) else {'findings': []}
data['findings'].append({
    'id': '%s-%s' % (prop, slug), 'property': prop, 'status': 'fixed',
    'commit': commit, 'what': what, 'witness': dst if witness != '-' else None,
    'line': 'fixed: property=%s %s %s' % (prop, commit, what)})
json.dump(data, open(kf, 'w'), indent=1)
print('committed', commit, subject)
