#!/bin/sh
# Offline setup: prebuild the only objects that contain no /repo code (the
# rapidcheck driver and the hash-union tool).  Everything that includes /repo
# sources or headers is rebuilt by every check from /repo's working tree.
set -e
cd "$(dirname "$0")"
mkdir -p build/common evidence
python3 - <<'PY'
import sys, os
sys.path.insert(0, 'vf')
import vfmain
vfmain.ensure_drv_rc()
vfmain.union_count([])
print('setup ok')
PY
