"""Per-property configuration, one module per property in vf/propdefs/CNN.py
defining PROP = dict(...):

  harness      list of harness sources (relative to harness/)
  rule         text: how cases are generated and what counts as non-trivial
  level_text / level_note   text for MANIFEST.json
  quick / thorough          dict(configs=[...], cases=N, maxlen=L, fuzz_s=S ...)
  required_classes          class counters that must be non-zero (generator health)
  assumptions               list of strings for the evidence file
optional: level, technique, defs, libs, env, case_timeout, sweep, alloc,
          replay_config, confirm, generate, claimed
"""
import glob
import importlib.util
import os

PROPS = {}
NOT_APPLICABLE = {}

_d = os.path.join(os.path.dirname(os.path.abspath(__file__)), 'propdefs')
for _f in sorted(glob.glob(os.path.join(_d, 'C*.py'))):
    _id = os.path.basename(_f)[:-3]
    _spec = importlib.util.spec_from_file_location('propdef_' + _id, _f)
    _m = importlib.util.module_from_spec(_spec)
    try:
        _spec.loader.exec_module(_m)
        PROPS[_id] = _m.PROP
    except Exception as _e:  # a broken definition must not take the others down
        import sys
        sys.stderr.write('warning: property definition %s ignored: %r\n' % (_f, _e))
        continue
    if hasattr(_m, 'NOT_APPLICABLE'):
        NOT_APPLICABLE[_id] = _m.NOT_APPLICABLE
