from common import COMMON_ASSUME

_CODECS = ['delta', 'for', 'pfor', 'group', 'dict', 'rle', 'elias', 'bp128']

PROP = dict(
    harness=['c02_arrays.c', 'vf_arr.c'],
    level_text=('generated-input search: every integer-array codec (delta '
                'signed/unsigned, FOR plain/batch, PFOR at 90/95/99, group, '
                'dictionary with own and shared dictionary, RLE with and '
                'without header, Elias gamma/delta, BP128 32/64-bit, its delta '
                'form and the block functions) is round-tripped through every '
                'full, block and random-access reader; the readers only see an '
                'exact-size copy of the bytes the encoder reported and write '
                'into exact-size outputs (AddressSanitizer redzones / canaries); '
                'sanitised, pinned-release and (thorough) SIMD-enabled builds; '
                'plus a deterministic sweep of all table lengths'),
    level_note=('the oracle is the input array itself; trusts the array '
                'generator harness/vf_arr.c, the harness-side PFOR percentile '
                'model (used only for class counters and destination sizing) '
                'and the compilers; lengths above 67825 are not generated'),
    rule=('case = (codec, encoder variant / threshold / meta mode, array '
          'descriptor: length class straddling the table lengths x shape, '
          'optional PFOR marker plant, dictionary prefix, BP128 block '
          'reference, reader indices and windows); non-trivial = count >= 2 '
          'and (max element needs >= 2 bytes, or count within +-1 of a table '
          'length, or a random-access/block reader ran, or PFOR had >= 1 '
          'exception, or BP128 had >= 2 blocks); distinct by hash of (codec, '
          'variant, codec parameters, array contents)'),
    quick=dict(configs=['asan', 'rel'], cases=2500000, maxlen=200),
    thorough=dict(configs=['asan', 'rel', 'simd'], cases=5000000, maxlen=400,
                  fuzz_s=120, setmax=1 << 23),
    case_timeout=60,
    required_classes=(
        ['codec.%s' % k for k in _CODECS] +
        ['%s.tableLength' % k for k in _CODECS] +
        ['%s.len>=65535' % k for k in _CODECS if k != 'group'] +
        ['delta.signed', 'delta.unsigned', 'delta.signed.edge',
         'rd.delta.decode', 'rd.delta.decodeUnsigned',
         'for.encode.meta0', 'for.encode.metaNULL', 'for.encode.metaAnalyzed',
         'for.batchEncode.meta0', 'for.batchEncode.metaNULL',
         'for.batchEncode.metaAnalyzed',
         'rd.for.decode', 'rd.for.batchDecode', 'rd.for.decodeBlock',
         'rd.for.getAt',
         'pfor.t90', 'pfor.t95', 'pfor.t99', 'pfor.exceptions>=1',
         'pfor.offsetEqMarker', 'pfor.planted',
         'rd.pfor.decode.meta0', 'rd.pfor.decode.readMeta',
         'rd.pfor.decode.encodeMeta', 'rd.pfor.getAt',
         'group.fields=1', 'group.fields=64', 'rd.group.decode',
         'rd.group.getField',
         'dict.encode', 'dict.withDict', 'dict.withDict.prefix',
         'rd.dict.decode', 'rd.dict.decodeInto',
         'rle.plain', 'rle.header', 'rle.plain.metaNULL', 'rle.header.metaNULL',
         'rd.rle.decode', 'rd.rle.decodeWithHeader', 'rd.rle.getAt',
         'rd.rle.decodeRun', 'rle.runs=1', 'rle.runs=n', 'rle.runs.mixed',
         'elias.gamma', 'elias.delta', 'rd.elias.gammaDecodeArray',
         'rd.elias.deltaDecodeArray',
         'bp128.encode32', 'bp128.encode64', 'bp128.deltaEncode32',
         'bp128.deltaEncode64', 'bp128.block32', 'bp128.deltaBlock32',
         'rd.bp128.decode32', 'rd.bp128.decode64', 'rd.bp128.deltaDecode32',
         'rd.bp128.deltaDecode64', 'rd.bp128.decodeBlock32',
         'rd.bp128.deltaDecodeBlock32',
         'bp128.blocks>=2', 'bp128.partialLast', 'bp128.fullLast',
         'bp128.width64', 'bp128.width32']),
    assumptions=COMMON_ASSUME + [
        'count >= 1; decoders are called with the original count as capacity; '
        'random-access indices are < count; FOR block windows lie inside the '
        'array',
        'signed delta input is kept within [-2^62+1, 2^62] or within 65535 of '
        'INT64_MIN / INT64_MAX so that consecutive differences are '
        'representable',
        'Elias input values are >= 1 and the decoder is given srcBits = '
        'meta.totalBits; BP128 delta input is non-decreasing and the block '
        'reference is <= the first value; 32-bit codecs get values < 2^32',
        'PFOR thresholds are the three documented constants; FOR/PFOR metas '
        'are zero-initialised, NULL, or produced by the library '
        '(varintFORAnalyze, varintPFORReadMeta, the encoder)',
        'group field count is 1..64; a shared dictionary contains every '
        'encoded value',
        'encode destinations are sized by the codec\'s own size function plus '
        '64 bytes (size bounds themselves are property C03)',
        'the adaptive encoder is not part of this property (C06)',
    ],
)
