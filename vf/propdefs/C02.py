from common import COMMON_ASSUME

_CODECS = ['delta', 'for', 'pfor', 'group', 'dict', 'rle', 'elias', 'bp128']

PROP = dict(
    technique='property-based testing: round-trip oracle (the input array is the oracle) on exact-size buffers under ASan with generated buffer placement; libFuzzer in the thorough tier',
    harness=['c02_arrays.c', 'vf_arr.c'],
    level_text=('generated-input search: every integer-array codec (delta '
                'signed/unsigned, FOR plain/batch, PFOR at 90/95/99, group, '
                'dictionary with own and shared dictionary, RLE with and '
                'without header, Elias gamma/delta, BP128 32/64-bit, its delta '
                'form and the block functions) is round-tripped through every '
                'full, block and random-access reader; the readers only see an '
                'exact-size copy of the bytes the encoder reported and write '
                'into exact-size outputs (AddressSanitizer redzones / canaries); '
                'where each buffer lies is generated with the case: outputs and '
                'encoder sources start 0..3 elements, the encoded copy and the '
                'encoder destination 0..15 bytes after a 16-byte boundary '
                '(outputs and the encoded copy still end at the redzone), and '
                'block readers also decode into out+start of one full-size '
                'array (generated windows, streaming in generated block sizes); '
                'sanitised, pinned-release and (thorough) SIMD-enabled builds; '
                'plus a deterministic sweep of all table lengths'),
    level_note=('the oracle is the input array itself; trusts the array '
                'generator harness/vf_arr.c, the harness-side PFOR percentile '
                'model (used only for class counters and destination sizing) '
                'and the compilers; lengths above 67825 are not generated'),
    rule=('case = (codec, encoder variant / threshold / meta mode, array '
          'descriptor: length class straddling the table lengths x shape, '
          'buffer placement: byte offset 0..15 of the encoded copy and of '
          'the encoder destination, element offset 0..3 of the encoder source '
          'and of every output buffer, streaming block size 1..255 or whole '
          'array, optional PFOR marker plant, dictionary prefix, BP128 block '
          'reference and 1..4 consecutive blocks, reader indices and '
          'windows); non-trivial = count >= 2 '
          'and (max element needs >= 2 bytes, or count within +-1 of a table '
          'length, or a random-access/block reader ran, or PFOR had >= 1 '
          'exception, or BP128 had >= 2 blocks); distinct by hash of (codec, '
          'variant, codec parameters, array contents) - placement is not '
          'part of the hash, so two placements of one array count once'),
    quick=dict(configs=['asan', 'rel', 'native'], cases=2000000, maxlen=200),
    thorough=dict(configs=['asan', 'rel', 'native'], cases=5000000, maxlen=400,
                  fuzz_s=120, setmax=1 << 23),
    case_timeout=60,
    required_classes=(
        ['codec.%s' % k for k in _CODECS] +
        ['%s.tableLength' % k for k in _CODECS] +
        ['%s.len>=65535' % k for k in _CODECS if k != 'group'] +
        ['delta.signed', 'delta.unsigned', 'delta.signed.edge',
         'rd.delta.decode', 'rd.delta.decodeUnsigned',
         'for.encode.meta0', 'for.encode.metaNULL', 'for.encode.metaAnalyzed',
         'for.batchEncode.meta0', 'for.batchEncode.metaNULL',
         'for.batchEncode.metaAnalyzed',
         'rd.for.decode', 'rd.for.batchDecode', 'rd.for.decodeBlock',
         'rd.for.getAt',
         'pfor.t90', 'pfor.t95', 'pfor.t99', 'pfor.exceptions>=1',
         'pfor.offsetEqMarker', 'pfor.planted',
         'rd.pfor.decode.meta0', 'rd.pfor.decode.readMeta',
         'rd.pfor.decode.encodeMeta', 'rd.pfor.getAt',
         'group.fields=1', 'group.fields=64', 'rd.group.decode',
         'rd.group.getField',
         'dict.encode', 'dict.withDict', 'dict.withDict.prefix',
         'rd.dict.decode', 'rd.dict.decodeInto',
         'rle.plain', 'rle.header', 'rle.plain.metaNULL', 'rle.header.metaNULL',
         'rd.rle.decode', 'rd.rle.decodeWithHeader', 'rd.rle.getAt',
         'rd.rle.decodeRun', 'rle.runs=1', 'rle.runs=n', 'rle.runs.mixed',
         'elias.gamma', 'elias.delta', 'rd.elias.gammaDecodeArray',
         'rd.elias.deltaDecodeArray',
         'bp128.encode32', 'bp128.encode64', 'bp128.deltaEncode32',
         'bp128.deltaEncode64', 'bp128.block32', 'bp128.deltaBlock32',
         'rd.bp128.decode32', 'rd.bp128.decode64', 'rd.bp128.deltaDecode32',
         'rd.bp128.deltaDecode64', 'rd.bp128.decodeBlock32',
         'rd.bp128.deltaDecodeBlock32',
         'bp128.blocks>=2', 'bp128.partialLast', 'bp128.fullLast',
         'bp128.width64', 'bp128.width32'] +
        # buffer placement (generated dimension of every case)
        ['place.generated', 'place.allZero',
         'align.out.0mod16', 'align.out.8mod16', 'align.out.4mod16',
         'align.out.12mod16', 'align.src.0mod16', 'align.src.8mod16',
         'align.src.4mod16', 'align.src.12mod16'] +
        ['align.in.%d' % k for k in range(16)] +
        ['align.dst.%dmod16' % k for k in range(16)] +
        ['%s.%s.%s' % (k, b, a) for k in _CODECS
         for b in ('out', 'in', 'src') for a in ('on16', 'off16')] +
        ['for.batchDecode.n>=16.out.on16', 'for.batchDecode.n>=16.out.off16',
         'for.decodeBlock.z>=16.out.on16', 'for.decodeBlock.z>=16.out.off16',
         'rd.for.decodeBlock.inPlace',
         'for.decodeBlock.inPlace.z>=16.out.on16',
         'for.decodeBlock.inPlace.z>=16.out.off16',
         'for.stream.oneBlock', 'for.stream.oddBlocks',
         'for.stream.evenBlocks', 'for.stream.z>=16.out.off16',
         'rd.bp128.block.inPlace', 'bp128.block.blocks=1',
         'bp128.block.blocks=2', 'bp128.block.blocks=4']),
    assumptions=COMMON_ASSUME + [
        'every buffer handed to the library is naturally aligned for its '
        'element type (uint64_t arrays 8-byte, uint32_t arrays 4-byte, byte '
        'buffers anywhere) and nothing more: no 16-byte alignment is promised '
        'to the library, as none is documented as required',
        'count >= 1; decoders are called with the original count as capacity; '
        'random-access indices are < count; FOR block windows lie inside the '
        'array',
        'signed delta input is kept within [-2^62+1, 2^62] or within 65535 of '
        'INT64_MIN / INT64_MAX so that consecutive differences are '
        'representable',
        'Elias input values are >= 1 and the decoder is given srcBits = '
        'meta.totalBits; BP128 delta input is non-decreasing and the block '
        'reference is <= the first value; 32-bit codecs get values < 2^32',
        'PFOR thresholds are the three documented constants; FOR/PFOR metas '
        'are zero-initialised, NULL, or produced by the library '
        '(varintFORAnalyze, varintPFORReadMeta, the encoder)',
        'group field count is 1..64; a shared dictionary contains every '
        'encoded value',
        'encode destinations are sized by the codec\'s own size function plus '
        '64 bytes (size bounds themselves are property C03)',
        'the adaptive encoder is not part of this property (C06)',
    ],
)
