from common import COMMON_ASSUME

PROP = dict(
    technique='metamorphic property-based testing: the same call under generated call histories, stack/heap residue and in-place buffer histories must give identical results; the generated cases are replayed under MemorySanitizer',
    harness=['c15_history.c', 'vf_arr.c'],
    alloc=True,            # links vf_alloc.c: heap fill in the `oom` build
    replay_config='msan',  # a witness is replayed where both oracles are live
    case_timeout=30,
    level_text=('generated-input search over (target call, history of other '
                'API calls, stack paint word, heap fill byte): metamorphic '
                'comparison of every documented output of the target across '
                'three executions (first / after history H with paint A / '
                'after a permuted or shortened H with paint B; H includes '
                'calls on the target\'s own input and encoded-form buffers '
                'after digest-preserving in-place edits, restored before the '
                'compared call, and such an in-place call is itself compared '
                'with the same call on a fresh copy of its arguments) in the '
                'pinned-release, unoptimised-with-asserts, ASan and '
                'heap-filling interposer builds, plus a MemorySanitizer '
                'replay of a sample of the same generated cases'),
    level_note=('trusts the harness (which pre-fills outputs with the paint '
                'pattern and compares only documented outputs), glibc malloc '
                'returning released blocks with their old content, the '
                'compilers\' stack layout (residue is a repeated 64-bit word, '
                'not an arbitrary pattern) and MemorySanitizer for '
                'pattern-independent detection; histories are short sequences '
                'from a fixed menu'),
    rule=('case = (target codec call with its arguments from the shared '
          'array generator, 0..6 history calls drawn from the same menu each '
          'with its own small array / the target\'s array / an array of the '
          'target\'s length - or, one step in three, an in-place step: the '
          'target\'s codec (same or other parameters) or another codec of '
          'the same input type called on the target\'s own buffers (same '
          'address; count, count-1 or count+1 elements) after 1..4 composable '
          'generated edits {move d from element i to j with wraparound, d '
          'chosen to cross the minimum / maximum / a width boundary; swap; '
          'rotate; reverse; flip one bit in two elements; interior-only '
          'changes; bit exchange inside pairs keeping sum and xor, over one '
          'pair or every pair; shorter / longer view}, each optionally '
          'starting again from the original contents and optionally followed '
          'by its own call, original contents restored afterwards -, paint selectors {zero, count, natural residue, '
          'all-ones, count in both 32-bit halves, small, raw, biased}, heap '
          'fill byte); non-trivial = history non-empty and the target '
          'allocates or takes a metadata in/out parameter; distinct by hash '
          'of (target kind, parameters, array contents, history kinds / '
          'lengths / array modes / in-place edit scripts, both paint '
          'words)'),
    quick=dict(configs=['rel', 'dbg', 'asan', 'oom', 'msan'], cases=400000,
               maxlen=320, dump_from='rel', dump_every=5, dump_max=5000,
               shares={'rel': 5, 'dbg': 4, 'asan': 4, 'oom': 3}),
    thorough=dict(configs=['rel', 'dbg', 'asan', 'oom', 'msan'], cases=3600000,
                  maxlen=400, dump_from='rel', dump_every=6, dump_max=40000,
                  shares={'rel': 5, 'dbg': 4, 'asan': 4, 'oom': 3},
                  fuzz_s=90, setmax=1 << 23),
    required_classes=['target.adaptive.auto', 'target.adaptive.forced',
                      'target.for', 'target.pfor', 'target.bp128.delta64',
                      'target.float', 'target.dict', 'target.bitmap',
                      'paint.count', 'paint.natural',
                      'history.sameCountAsTarget', 'adaptive.selected.FOR',
                      'adaptive.selected.PFOR', 'adaptive.selected.DICT',
                      # in-place edit histories (calls on the target's own
                      # buffers with other contents)
                      'hist.inplace.case', 'hist.inplace.copyOracle',
                      'hist.inplace.mixedWithOtherSteps',
                      'hist.inplace.codec.own',
                      'hist.inplace.codec.ownOtherParams',
                      'hist.inplace.codec.other',
                      'hist.inplace.view.shorter', 'hist.inplace.view.longer',
                      'hist.inplace.sumKept.minOrMaxMoved',
                      'hist.inplace.sumKept.len>=64',
                      'hist.inplace.xorKept.minOrMaxMoved',
                      'hist.inplace.firstLastKept.minOrMaxMoved',
                      'hist.inplace.sumAndXorKept.everyElementChanged',
                      'hist.inplace.encodedSameLength',
                      'hist.inplace.encodedOtherLength',
                      'hist.inplace.edit.move', 'hist.inplace.edit.swap',
                      'hist.inplace.edit.rotate', 'hist.inplace.edit.reverse',
                      'hist.inplace.edit.xorflip',
                      'hist.inplace.edit.interior',
                      'hist.inplace.edit.sumxor', 'hist.inplace.edit.view',
                      'hist.inplace.target.pfor', 'hist.inplace.target.for',
                      'hist.inplace.target.dict',
                      'hist.inplace.target.dict.prebuilt',
                      'hist.inplace.target.rle',
                      'hist.inplace.target.delta.unsigned',
                      'hist.inplace.target.bp128.32',
                      'hist.inplace.target.bp128.64',
                      'hist.inplace.target.bp128.delta64',
                      'hist.inplace.target.elias.gamma',
                      'hist.inplace.target.float',
                      'hist.inplace.target.adaptive.auto',
                      'hist.inplace.target.adaptive.forced',
                      'hist.inplace.target.group',
                      'hist.inplace.target.bitmap'],
    assumptions=COMMON_ASSUME + [
        'FOR encoders get metadata that was either filled by the matching '
        'Analyze call for the same array or has count == 0; PFOR decoders get '
        'metadata with width == 0 or the encoder\'s own metadata (the '
        'documented ways to use the in/out parameter)',
        'decoders are called with the original element count and the '
        'encoder\'s byte/bit length; destination buffers are larger than any '
        'documented bound',
        'fields the API does not document as outputs are not compared '
        '(varintPFORMeta.thresholdValue after ReadMeta/Decode, '
        'varintAdaptiveMeta.encodedSize after Decode, the unused arm of the '
        'metadata union, struct padding); what a DECODER leaves in the '
        'caller\'s PFOR metadata (varintPFORDecode with width == 0, the PFOR '
        'arm of the union after varintAdaptiveDecode) is compared only when '
        'the library wrote it: those objects are pre-filled with a pattern '
        'different from the stack paint, and a field that still holds the '
        'pattern in both executions is "not written", which is allowed',
        'stack residue is a repeated 64-bit word over 64 KiB below the '
        'caller; dependence on a multi-word residue pattern is only reachable '
        'through the MemorySanitizer replay',
        'in-place history steps keep the documented preconditions of the '
        'codec they call (sorted / 32-bit / >= 1 / signed-delta domains are '
        're-established after the edits); they change the CONTENTS of the '
        'target\'s buffers between calls, never during one; a stale entry '
        'is only reachable if its key collides for one of the generated edit '
        'scripts (pointer, count, sum, xor, first / last / sampled elements, '
        'encoded length, leading encoded bytes) - a cache validated by a '
        'strong hash of the contents is out of reach, as is one keyed on '
        'output-buffer addresses',
        'the copy oracle reads "results are a function of the arguments" as '
        'independent of the address of the caller\'s buffers (both copies '
        'are malloc-aligned)',
        'the fresh-process execution of the design entry is covered by '
        'execution (a) on a zeroed stack window plus the framework\'s three '
        'fresh-process confirmations of every candidate',
    ],
)
