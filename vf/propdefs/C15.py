from common import COMMON_ASSUME

PROP = dict(
    harness=['c15_history.c', 'vf_arr.c'],
    alloc=True,            # links vf_alloc.c: heap fill in the `oom` build
    replay_config='msan',  # a witness is replayed where both oracles are live
    case_timeout=30,
    level_text=('generated-input search over (target call, history of other '
                'API calls, stack paint word, heap fill byte): metamorphic '
                'comparison of every documented output of the target across '
                'three executions (first / after history H with paint A / '
                'after a permuted or shortened H with paint B) in the '
                'pinned-release, unoptimised-with-asserts, ASan and '
                'heap-filling interposer builds, plus a MemorySanitizer '
                'replay of a sample of the same generated cases'),
    level_note=('trusts the harness (which pre-fills outputs with the paint '
                'pattern and compares only documented outputs), glibc malloc '
                'returning released blocks with their old content, the '
                'compilers\' stack layout (residue is a repeated 64-bit word, '
                'not an arbitrary pattern) and MemorySanitizer for '
                'pattern-independent detection; histories are short sequences '
                'from a fixed menu'),
    rule=('case = (target codec call with its arguments from the shared '
          'array generator, 0..6 history calls drawn from the same menu each '
          'with its own small array / the target\'s array / an array of the '
          'target\'s length, paint selectors {zero, count, natural residue, '
          'all-ones, count in both 32-bit halves, small, raw, biased}, heap '
          'fill byte); non-trivial = history non-empty and the target '
          'allocates or takes a metadata in/out parameter; distinct by hash '
          'of (target kind, parameters, array contents, history kinds / '
          'lengths / array modes, both paint words)'),
    quick=dict(configs=['rel', 'dbg', 'asan', 'oom', 'msan'], cases=400000,
               maxlen=320, dump_from='rel', dump_every=5, dump_max=5000,
               shares={'rel': 5, 'dbg': 4, 'asan': 4, 'oom': 3}),
    thorough=dict(configs=['rel', 'dbg', 'asan', 'oom', 'msan'], cases=3600000,
                  maxlen=400, dump_from='rel', dump_every=6, dump_max=40000,
                  shares={'rel': 5, 'dbg': 4, 'asan': 4, 'oom': 3},
                  fuzz_s=90, setmax=1 << 23),
    required_classes=['target.adaptive.auto', 'target.adaptive.forced',
                      'target.for', 'target.pfor', 'target.bp128.delta64',
                      'target.float', 'target.dict', 'target.bitmap',
                      'paint.count', 'paint.natural',
                      'history.sameCountAsTarget', 'adaptive.selected.FOR',
                      'adaptive.selected.PFOR', 'adaptive.selected.DICT'],
    assumptions=COMMON_ASSUME + [
        'FOR encoders get metadata that was either filled by the matching '
        'Analyze call for the same array or has count == 0; PFOR decoders get '
        'metadata with width == 0 or the encoder\'s own metadata (the '
        'documented ways to use the in/out parameter)',
        'decoders are called with the original element count and the '
        'encoder\'s byte/bit length; destination buffers are larger than any '
        'documented bound',
        'fields the API does not document as outputs are not compared '
        '(varintPFORMeta.thresholdValue after ReadMeta/Decode, '
        'varintAdaptiveMeta.encodedSize after Decode, the unused arm of the '
        'metadata union, struct padding)',
        'stack residue is a repeated 64-bit word over 64 KiB below the '
        'caller; dependence on a multi-word residue pattern is only reachable '
        'through the MemorySanitizer replay',
        'the fresh-process execution of the design entry is covered by '
        'execution (a) on a zeroed stack window plus the framework\'s three '
        'fresh-process confirmations of every candidate',
    ],
)
