from common import COMMON_ASSUME

PROP = dict(
    timeout_is_violation=True,   # C14 claims termination
    technique='fuzzing (libFuzzer, thorough tier) and property-based testing of raw, truncated, mutated and structured hostile inputs on exact-size heap copies under ASan, with an allocation-size interposer and a per-case alarm',
    harness=['c14_hostile.c', 'vf_arr.c', 'vf_ref.c'],
    alloc=True,
    case_timeout=20,
    replay_config='oom',    # asan + allocation interposer: every oracle of the check
    level_text=('generated-input search: raw byte strings, every / sampled '
                'truncation of valid encodings, 1-3 byte or bit mutations and '
                'structured hostile header values for the seven length-taking '
                'entry points, each input an exact-size heap block, under '
                'AddressSanitizer (rapidcheck and a coverage-guided libFuzzer '
                'campaign), in the pinned release build, and with every '
                'library allocation routed through a size-recording '
                'interposer; a deterministic sweep covers every prefix and '
                'every hostile table value on small encodings'),
    level_note=('over-reads are observed by ASan redzones on exact-size '
                'copies (plus result-independence from the bits / bytes that '
                'follow the declared input). Expectations about decoded '
                'content exist only for bytes written by the library\'s own '
                'encoder (and their prefixes) and are judged through public '
                'APIs: element comparison with the input array, bitmap '
                'cardinality + iteration against the source set, '
                'varintElias*Bits / varintRLEDecodeRun / the encoders\' meta for '
                'code and run boundaries, varintBitWriter for the bit order; '
                'no wire layout of an array codec or of the bitmap '
                'serialisation and no container type is assumed by an oracle '
                '(layout knowledge only steers the hostile-input generator; '
                'the tagged scalar format of C04 is the exception). Raw, '
                'mutated and hostile inputs are arbitrary bytes: only crash / '
                'over-read / over-write / allocation-size / termination '
                'oracles apply. Not exhaustive'),
    rule=('case = (entry point, capacity selector, mode) + raw bytes, or an '
          'array descriptor encoded by the library and then truncated / '
          'mutated / given a hostile header field; non-trivial = a truncated, '
          'mutated or hostile variant of a valid encoding, or a raw input '
          'whose first header field is well-formed (tagged varint complete, '
          'dictionary size <= 1 Mi, first Elias code complete, bitmap type '
          'known with a complete header, first RLE run started); distinct by '
          'hash of (entry point, input bytes, declared length, capacity)'),
    quick=dict(configs=['asan', 'rel', 'oom'], cases=1200000, maxlen=200),
    thorough=dict(configs=['asan', 'rel', 'oom'], cases=6000000, maxlen=600,
                  fuzz_s=240, fuzz_maxlen=900, setmax=1 << 23),
    required_classes=[
        'entry.tagged', 'entry.dictDecode', 'entry.dictDecodeInto',
        'entry.gamma', 'entry.delta', 'entry.bitmap', 'entry.rleRunCount',
        'mode.raw', 'mode.truncate', 'mode.mutate', 'mode.hostile',
        'raw.empty', 'raw.passesHeader', 'input.truncated', 'input.fullValid',
        'hostile.dict.dictSize', 'hostile.dict.count', 'hostile.elias.zeroflood',
        'hostile.elias.hugelength', 'hostile.bitmap.type',
        'hostile.bitmap.cardinality', 'hostile.bitmap.numRuns',
        'hostile.rle.len0', 'bitmap.valid.small', 'bitmap.valid.large',
        'bitmap.valid.range', 'cap.zero', 'cap.below', 'cap.exact', 'cap.above',
        'elias.padbits.checked',
    ],
    assumptions=COMMON_ASSUME + [
        'the declared length is the true size of the input block (byte count; '
        'for the Elias decoders a bit count with ceil(bits/8) bytes '
        'allocated); length 0 is passed with a valid 1-byte block',
        'output buffers are non-NULL and hold exactly the capacity passed',
        'Elias encoders are only given values >= 1 and a buffer of '
        'varintElias*MaxBytes(count)',
        'a decoder may answer a hostile input with NULL / 0 / a short count; '
        'only crashes, out-of-bounds accesses, single allocation requests '
        'above 8 MiB + 64*len, results that depend on data outside the '
        'declared input and wrong values on (prefixes of) encodings written '
        'by the library\'s own encoder are violations; a hand-built or '
        'modified byte string is never treated as a valid encoding',
        'a shortened bitmap encoding that is accepted all the same must give '
        'a subset of the encoded set (the "short result" of the statement)',
    ],
)
