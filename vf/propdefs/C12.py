from common import COMMON_ASSUME

PROP = dict(
    technique='property-based testing: signed-arithmetic reference model on exact-size slots',
    harness=['c12_add.c', 'vf_ref.c'],
    level_text=('generated-input search against an arithmetic model: '
                'varintTaggedAddNoGrow/Grow and varintExternalAddNoGrow/Grow '
                'on (stored value, slot width, amount) triples whose amounts '
                'are aimed at every width maximum of the family -1/0/+1, at the '
                'top of the slot, at the next lower width class and at the '
                'signed-overflow edges; returned width, stored bytes (decoded '
                'by the reference decoder), untouched bytes and the overflow '
                'report are compared with the model; external no-grow slots '
                'are heap blocks of exactly the slot width so that a write '
                'past the slot is an AddressSanitizer report (canary tail in '
                'the release build); exhaustive only for the deterministic '
                'sweep over all width classes x slot widths x boundary amounts'),
    level_note=('the model is 128-bit integer arithmetic plus the documented '
                'width tables of harness/vf_ref.c (validated in C04); trusts '
                'the case decoder and the compilers; bytes inside the slot '
                'but beyond the returned width are not constrained; for the '
                'external family the returned width may be anything from the '
                'sum\'s minimal width up to the slot (no-grow) or 8 (grow)'),
    rule=('case = (family tagged|external, grow|no-grow, fill, up to 6 records '
          '(boundary-biased stored value, external slot width >= minimal, '
          'amount kind and parameter)); non-trivial = the sum has a different '
          'minimal width than the stored value (either direction), or the '
          'signed sum overflows, or lies within 2 of INT64_MIN/INT64_MAX; '
          'distinct by hash of (family, form, stored, slot, amount)'),
    quick=dict(configs=['asan', 'rel'], cases=14000000, maxlen=120),
    thorough=dict(configs=['asan', 'rel'], cases=120000000, maxlen=120,
                  fuzz_s=60, setmax=1 << 23),
    required_classes=['tagged.nogrow.nofit', 'tagged.nogrow.shrank',
                      'tagged.nogrow.same', 'tagged.nogrow.overflow',
                      'tagged.grow.grew', 'tagged.grow.shrank',
                      'tagged.grow.overflow',
                      'external.nogrow.nofit', 'external.nogrow.grew',
                      'external.nogrow.shrank', 'external.nogrow.overflow',
                      'external.grow.grew', 'external.grow.shrank',
                      'external.grow.overflow', 'external.slot.wider',
                      'stored.negative', 'sum.at.int64.edge',
                      'amount.slotmax', 'amount.lowermax', 'amount.anymax',
                      'amount.ovf.high', 'amount.ovf.low'],
    assumptions=COMMON_ASSUME + [
        'the stored value takes part in the addition as int64 (documented '
        '"signed math"); a negative sum is stored as its two\'s complement '
        'uint64, i.e. at the family maximum width',
        'tagged slots hold the canonical encoding of the stored value and live '
        'in a 9-byte buffer (documented minimum for the tagged writer); '
        'external slots may be wider than minimal (zero padded), the grow '
        'form is given the 8 bytes it may extend to',
        '"width of what is now stored": for the tagged family (one encoding '
        'per value, C04/C05) the minimal width of the sum; for the external '
        'family any width w with minimal <= w <= slot (no-grow) / <= 8 (grow) '
        'such that the slot read with w bytes is the sum - a wider '
        'fixed-width form is a legal external varint, and whether the add '
        're-encodes at the minimal width (as the pinned code does) or keeps '
        'the caller\'s slot width is not fixed by the property; bytes between '
        'the returned width and the old slot width are not constrained',
    ],
)
