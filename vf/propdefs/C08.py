from common import COMMON_ASSUME

PROP = dict(
    technique='model-based stateful property testing: operation histories against a 65536-bit reference set; libFuzzer in the thorough tier',
    harness=['c08_bitmap.c'],
    level_text=('model-based generated-history search: 4 bitmap objects, each '
                'paired with a 65536-bit reference set, driven by 1..200 '
                'operations (add, remove, half-open ranges, clear, clone, bulk '
                'add, or/and/xor/andNot with free choice of operands and '
                'destination, serialise->deserialise through a buffer of '
                'exactly the returned size, single-element bursts that walk '
                'the cardinality across 4096 in both directions); after every '
                'operation the return values, cardinality, emptiness, '
                'membership (arguments, neighbours, 16 probes), operand '
                'preservation and the iterator / ToArray sequence are compared '
                'with the model; sanitised and pinned-release builds; '
                'coverage-guided (libFuzzer) on the thorough tier; a '
                'deterministic sweep covers every table range length on every '
                'container kind and set algebra over all pairs of kinds with '
                'membership tested on all 65536 values'),
    level_note=('trusts the 65536-bit reference set in harness/c08_bitmap.c '
                '(bit operations and popcount) and the compilers; histories '
                'are sampled, not enumerated; the container type is read '
                '(GetStats) for classification only and never enters the '
                'oracle; allocation failure is out of scope here (C18)'),
    rule=('case = sequence of 1..200 fixed-width records op:1 slot:1 a:2 b:2 '
          'over 4 slots (range lengths biased to {1,100,4000,4095,4096,4097,'
          '5000,30000,65535}); non-trivial = the history contains a record '
          'that moves a cardinality across the 4095/4096 line, or a RUNS '
          'container was observed, or a mutation is applied to a deserialised '
          'object, or a binary operation has a non-ARRAY operand; distinct by '
          'hash of the decoded record sequence'),
    # measured (one core): asan 19 ms / history, rel 4.9 ms / history (about 47
    # records per history); 3:1 split keeps all 16 cores busy on the slower,
    # stronger (redzones, asserts) configuration
    quick=dict(configs=['asan', 'rel'], cases=40000, maxlen=1200,
               shares={'asan': 3, 'rel': 1}),
    thorough=dict(configs=['asan', 'rel'], cases=160000, maxlen=1200,
                  shares={'asan': 3, 'rel': 1},
                  fuzz_s=180, fuzz_maxlen=1200, setmax=1 << 22),
    case_timeout=60,
    required_classes=['type.ARRAY', 'type.BITMAP', 'type.RUNS', 'cross.up',
                      'cross.down', 'history.cross.both', 'step.4095>4096',
                      'step.4096>4097', 'step.4097>4096', 'step.4096>4095',
                      'mut.after.deser', 'deser.ARRAY', 'deser.BITMAP',
                      'deser.RUNS', 'binop.nonarray', 'binop.runs',
                      'binop.bitmap', 'binop.same.operands',
                      'binop.dst.is.operand', 'addrange.long.nonempty',
                      'addrange.long.empty', 'trans.RUNS>BITMAP',
                      'trans.RUNS>ARRAY', 'trans.BITMAP>ARRAY',
                      'trans.ARRAY>BITMAP'],
    assumptions=COMMON_ASSUME + [
        'ranges are half-open with min <= max; the API takes uint16_t bounds, '
        'so an exclusive upper bound of 65536 is not expressible: ranges end '
        'at <= 65535 and the value 65535 becomes a member only through '
        'Add/AddMany',
        'serialisation follows the documented usage (examples/standalone/'
        'example_bitmap.c): Encode into a buffer of SizeBytes()+100 bytes, '
        'Decode from a separate buffer of exactly the size Encode returned',
        'ToArray is given a buffer of exactly Cardinality() elements',
        'every object returned by Create/Clone/And/Or/Xor/AndNot/Decode is '
        'owned and freed by the caller; all allocations succeed',
    ],
)
