from common import COMMON_ASSUME

PROP = dict(
    technique='property-based testing: bound oracle - destination allocated at exactly the advertised size (ASan redzone / canary), worst-case-biased generators',
    harness=['c03_bounds.c', 'vf_arr.c'],
    level_text=('generated-input search: every array encoder that has a sizing '
                'function (delta signed/unsigned, RLE plain/with header, Elias '
                'gamma/delta, BP128 32/64/delta32/delta64, adaptive auto, float '
                'Encode/EncodeAuto in 4 precisions x 3 modes, FOR Encode/'
                'BatchEncode, PFOR 90/95/99, group, dictionary Encode/'
                'EncodeWithDict) is called on a destination of exactly the '
                'advertised size (ASan redzone in the sanitised build, canary '
                'tail in the pinned-release build) after a first call into an '
                'oversized pattern-filled buffer that attributes an over-run to '
                'a named site; returned length <= advertised, equal where the '
                'predictor is documented as exact; generators overlay each '
                'bound\'s worst-case class on shared array shapes; the adaptive '
                'bound is additionally exercised on large arrays (10001..141071 '
                'elements) whose true distinct count and 1-in-10 sampled '
                'distinct count disagree: every k-th element (k 1..20, all '
                'phases, mostly k = the sampler\'s stride at phase 0) from a '
                'palette of 1..4 values, the others from a pool of D distinct '
                'values, D per dictionary index width (<= 256, 257..65536, '
                '> 65536) x tagged width class of the values (1..9 bytes, '
                'mostly 6..9) x unsorted / ascending / descending; a '
                'deterministic sweep covers the textbook worst cases at the '
                'lengths where a header field changes width and four '
                'representatives of the large adaptive class'),
    level_note=('trusts the harness decoding of case bytes, the sanitizer / '
                'canary to see stray writes, and that a write of the pattern '
                'byte 0xC3 beyond the bound in pass 1 is seen by pass 2; not '
                'exhaustive; arrays above 70000 elements (adaptive: above 141071) '
                'are not generated; the large adaptive class is a fixed share '
                'of about 600 cases per quick run'),
    rule=('case = (family, variant, worst-case class, length cap selector, '
          'array descriptor [, float mode]); non-trivial = the encoder '
          'returned at least half of the advertised size, or the input is in '
          'a worst-case class (maximal width, all-distinct 9-byte values, '
          'alternating huge/low, 9-byte outliers at the last indices, '
          '64-bit-wide blocks, sampler-fooling stride (incl. the large '
          'palette/pool arrays of the adaptive sub-mode), 9-byte first value, '
          'count > 10000 for adaptive, 9-byte minimum or 8-byte offsets for '
          'FOR, 9-byte exception at index > 240 for PFOR, all-special or '
          'none-special doubles); distinct by hash of (family, variant, '
          'array contents, float mode)'),
    quick=dict(configs=['asan', 'rel', 'native'], cases=1500000, maxlen=200),
    thorough=dict(configs=['asan', 'rel', 'native'], cases=10000000, maxlen=400,
                  fuzz_s=120, setmax=1 << 23),
    case_timeout=60,
    required_classes=[
        'fam.delta', 'fam.rle', 'fam.eliasGamma', 'fam.eliasDelta',
        'fam.bp128', 'fam.adaptive', 'fam.float', 'fam.for', 'fam.pfor',
        'fam.group', 'fam.dict',
        'site.delta.signed', 'site.delta.unsigned', 'site.rle.plain',
        'site.rle.size', 'site.rle.header', 'site.elias.gamma',
        'site.elias.delta', 'site.bp128.enc32', 'site.bp128.enc64',
        'site.bp128.delta32', 'site.bp128.delta64', 'site.adaptive.auto',
        'site.float.encode', 'site.float.auto', 'site.for.encode',
        'site.for.batch', 'site.pfor.encode', 'site.group.encode',
        'site.dict.encode', 'site.dict.withdict',
        'wc.maxWidth', 'wc.distinct9', 'wc.alternate', 'wc.tailOutliers',
        'wc.blocks64', 'wc.fool', 'wc.first9',
        'adaptive.count>10000',
        # large arrays on which sample and true distinct count disagree
        'adaptive.large', 'adaptive.large.idx1', 'adaptive.large.idx2',
        'adaptive.large.idx3', 'adaptive.large.tag6', 'adaptive.large.tag7',
        'adaptive.large.tag8', 'adaptive.large.tag9',
        'adaptive.large.unsorted', 'adaptive.large.ascending',
        'adaptive.large.descending', 'adaptive.large.n>72818',
        'adaptive.large.k=stride.phase0', 'adaptive.large.phase>0',
        'adaptive.large.poolOnKth', 'adaptive.large.under',
        'adaptive.large.over',
        'adaptive.large.agree', 'adaptive.large.under.idx2',
        'adaptive.large.under.idx3', 'adaptive.large.under.idx3.tag6',
        'adaptive.large.under.idx3.tag7', 'adaptive.large.under.idx3.tag8',
        'adaptive.large.under.idx3.tag9', 'adaptive.large.under.sel.DICT',
        'adaptive.large.under.sel.TAGGED', 'adaptive.large.result>=90%',
        'adaptive.sel.DICT', 'adaptive.sel.PFOR',
        'adaptive.sel.FOR', 'adaptive.sel.DELTA', 'adaptive.sel.TAGGED',
        'pfor.exceptions', 'pfor.noExceptions', 'pfor.excIndex>240',
        'pfor.excIndex>2287', 'pfor.exc9bytes', 'bp128.blocks>=2',
        'for.min9bytes', 'for.width8', 'float.allSpecial',
        'float.noneSpecial', 'dict.allDistinct', 'result.tight',
    ],
    assumptions=COMMON_ASSUME + [
        'count >= 1 for FOR (asserted), PFOR and group (1..64 fields); '
        'count == 0 is generated only for encoders whose code handles it '
        'explicitly',
        'Elias inputs are >= 1; signed delta inputs lie in [-2^62, 2^62-1] so '
        'every difference is representable; BP128 delta inputs are '
        'non-decreasing; 32-bit BP128 inputs are < 2^32',
        'PFOR thresholds are the three documented constants; FOR metadata is '
        'either the result of varintFORAnalyze on the same array, zeroed, or '
        'NULL',
        'varintRLEEncodeWithHeader is held to varintRLEMaxSize(count), the '
        'bound the repository\'s own stress test allocates for it; '
        'varintFloatEncodeAuto is held to the FULL-precision bound (the '
        'precision is chosen by the callee)',
        'only the auto-selecting varintAdaptiveEncode is held to '
        'varintAdaptiveMaxSize; the stack is zeroed before each adaptive call '
        'so that the uninitialised FOR metadata of defect #24 (property C15) '
        'does not decide the outcome of this check',
    ],
)
