import importlib.util
import os

from common import COMMON_ASSUME

# the generator script is the single source of the instantiation list: the
# per-instantiation class counters that must all be hit come from it
_gen = os.path.join(os.path.dirname(os.path.dirname(os.path.dirname(
    os.path.abspath(__file__)))), 'harness', 'c09_packed_inst.py')
_spec = importlib.util.spec_from_file_location('c09_packed_inst', _gen)
_m = importlib.util.module_from_spec(_spec)
_spec.loader.exec_module(_m)
_NTU = 12
_INST = [c['name'] for c in _m.configs()]

PROP = dict(
    technique='model-based stateful property testing over 214 generated template instantiations with slot-isolation oracles (exact allocation, poisoning, storage shadow)',
    generate=[['c09_packed_inst.py', str(_NTU)]],
    harness=['c09_packed.c'] + ['gen:c09_inst_%d.c' % k for k in range(_NTU)],
    level_text=('generated-input search over %d compile-time instantiations '
                'of varintPacked.h (every width 1..32 x slot type u8/u16/u32/'
                'u64 in which an element spans at most two slots, COMPACT with '
                'its own slot choice, the value / micro-promotion / '
                'length-type variants the tree instantiates, and '
                'PACK_MAX_ELEMENTS 255 / 3700 / 10000 / 65535 / 70000 / 5e9 '
                '(uint8/16/32/64 length types) x widths 1, 7, 12, 13, 24, 32 '
                'x slot types) x operation histories on arrays of up to 300 '
                'elements and, for a fixed ~1 %% share (quick; ~2.7 %% '
                'thorough), on large arrays of up to PACK_MAX_ELEMENTS (70000 '
                'without limit) elements with operations concentrated at the '
                'last elements and around bit positions 2^16..2^21; reference '
                'uint32_t[] model compared element by element after every '
                'operation (large arrays: storage bytes outside the written '
                'elements compared with a shadow copy, watched regions and the '
                'written range read back, everything read back at the end and, '
                'up to 12000 elements, after every operation), tail bits of '
                'the last slot and guards compared, '
                'storage of exactly the needed slots (ASan redzone / '
                'canaries), and under ASan every set/get repeated on a copy '
                'with every other slot poisoned; plus a deterministic sweep of '
                'every start-bit phase of every instantiation, of one '
                'maximum-length array per instantiation, and of the elements '
                'around bit position 2^32 in a sparse mapping for every '
                'instantiation that can address them' % len(_INST)),
    level_note=('trusts the harness reference model (array shifts, linear '
                'lower bound), the slot arithmetic used to size the storage '
                'and to place the poison (first/last bit of element i divided '
                'by the slot width), ASan, and the compilers; histories are '
                'sampled, not enumerated; ASan poisoning is exact to the byte '
                'after the element and to the 8-byte granule in front of it '
                '(the copy is placed so that the element starts a granule)'),
    rule=('case = (instantiation, n <= 300 or a large n up to the '
          'instantiation\'s maximum / 70000, background fill, mode, up to 28 '
          '(56 thorough) records, 8-16 (16-32) in a large history); '
          'positional mode: set/get/incr/half on any '
          'element, insert with len < n, delete with len <= n; sorted mode: '
          'insertSorted/member/deleteMember/binarySearch/delete/get on a '
          'sorted live prefix, values biased to existing members +-1, 0, '
          'mask; non-trivial = at least one record addresses an element that '
          'straddles two slots, or an insert/delete that shifts >= 1 element; '
          'distinct by hash of (instantiation, header, decoded records)'),
    # measured: asan 12.4k, rel 45k, dbg 38k small histories/s/worker at maxlen
    # 200; a large history costs ~2.2 ms (asan), ~0.6 ms (rel), ~1 ms (dbg);
    # asan gets half of the workers (and of the cases), so every worker runs
    # cases/16 histories
    quick=dict(configs=['asan', 'rel', 'dbg'], cases=6000000, maxlen=200,
               shares=dict(asan=2, rel=1, dbg=1), reg_timeout=60),
    thorough=dict(configs=['asan', 'rel', 'dbg'], cases=30000000, maxlen=400,
                  shares=dict(asan=2, rel=1, dbg=1), reg_timeout=120,
                  fuzz_s=120,
                  setmax=1 << 23),
    case_timeout=20,
    required_classes=_INST + [
        'mode.positional', 'mode.sorted', 'straddle', 'shift.sorted',
        'shift.positional', 'op.set', 'op.get', 'op.incr', 'op.half',
        'op.insert', 'op.delete', 'op.insertSorted', 'member.hit',
        'member.miss', 'deleteMember.hit', 'deleteMember.miss',
        'op.binarySearch', 'binarySearch.end', 'insert.at-capacity',
        'last-element', 'iso.poisoned', 'incr.to-max',
        # large arrays
        'large', 'large.positional', 'large.sorted', 'large.n-at-max',
        'large.init-setall', 'large.last-element', 'large.first-64',
        'large.shift-over-1000', 'bitpos.ge-2^16', 'bitpos.crossing-2^16',
        'bitpos.crossing-2^17..21', 'len.gt-65535', 'large.unlimited',
        'sweep.bitpos-2^32',
        ] + ['large.max%d' % m for m in sorted(set(
            c['maxel'] for c in _m.configs() if c['maxel']))],
    assumptions=COMMON_ASSUME + [
        'only instantiations in which an element never spans more than two '
        'slots (B <= S + gcd(B, S)) are generated; values fit the mask; '
        'increments are non-negative with the sum inside the mask',
        'an instantiation with PACK_MAX_ELEMENTS never sees an index or a '
        'length above that limit (n <= PACK_MAX_ELEMENTS); bit positions at '
        'and beyond 2^32 (>= 512 MiB of storage) are only visited by the '
        'fixed script of the deterministic sweep, not by generated histories',
        'the caller tracks the length: Insert/InsertSorted are called with '
        'len <= n-1 (they write element [len], the storage has room for n), '
        'Delete with 1 <= len <= n and offset < len, Member/BinarySearch/'
        'DeleteMember with 0 <= len <= n; sorted operations only on a sorted '
        'prefix',
        'after Delete/DeleteMember of an array of len elements the vacated '
        'position len-1 is unspecified (left as it was or cleared): the '
        'reference adopts what it reads as; its storage bits stay under the '
        'slot-level oracles and element len is compared as before',
        'storage is sized in whole slots (ceil(n*B/S) slots), as the slot '
        'type is the unit of access; byte-granular buffers smaller than '
        'that (as in some documentation snippets) are out of scope',
    ],
)
