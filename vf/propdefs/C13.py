from common import COMMON_ASSUME

PROP = dict(
    technique='property-based testing: capacity oracle - output allocated at exactly the capacity (ASan redzone / canary) plus prefix comparison',
    harness=['c13_capacity.c', 'vf_arr.c'],
    level_text=('generated-input search: valid encodings produced by the '
                'library\'s own encoders for 19 capacity-taking decoder paths '
                '(FOR Decode/BatchDecode/DecodeBlock, group, dictionary '
                'DecodeInto, RLE both formats, Elias gamma/delta, BP128 all '
                'four, adaptive under each of its six forced encodings) x '
                'capacities 0..count; every decode runs once into a buffer '
                'with a guard region behind the capacity and once into an '
                'exact-size allocation (ASan redzone in the sanitised build, '
                'canary tail in the pinned-release build); plus a '
                'deterministic sweep of every capacity for lengths around the '
                '128-block and tagged-count boundaries'),
    level_note=('trusts the harness decoder of the case bytes, ASan\'s heap '
                'redzones (which also watch the library\'s own scratch '
                'buffers), the 0xA5 guard pattern (an overflow that writes '
                'exactly that pattern is invisible in phase 1) and the '
                'compilers; encoders are trusted only to produce *some* valid '
                'encoding of the input, the prefix comparison is against the '
                'input array'),
    rule=('case = (decoder path, capacity selector in {0, 1, count-1, count, '
          'count/2, 127, 128, 129, uniform[0,count]} clamped to count, block '
          'start for DecodeBlock, array descriptor: length class incl. '
          '127..129 / 255..257 / 128k+r up to 5000 (3000 for Elias, 64 fields '
          'for group) x 14 shapes, domain-restricted per codec); non-trivial '
          '= 0 < capacity < count; distinct by hash of (path, capacity, '
          'start, array contents)'),
    quick=dict(configs=['asan', 'rel', 'native'], cases=2000000, maxlen=160),
    thorough=dict(configs=['asan', 'rel', 'native'], cases=15000000, maxlen=240,
                  fuzz_s=120, setmax=1 << 23),
    case_timeout=30,
    required_classes=['arr.n>20000', 
        'for.decode', 'for.batchdecode', 'for.decodeblock', 'group.decode',
        'dict.decodeinto', 'rle.decode', 'rle.decodewithheader',
        'elias.gamma', 'elias.delta', 'bp128.decode32', 'bp128.decode64',
        'bp128.deltadecode32', 'bp128.deltadecode64', 'adaptive.DELTA',
        'adaptive.FOR', 'adaptive.PFOR', 'adaptive.DICT', 'adaptive.BITMAP',
        'adaptive.TAGGED',
        'cap.0', 'cap.1', 'cap.count-1', 'cap.count', 'cap.half', 'cap.127',
        'cap.128', 'cap.129', 'cap.uniform',
        'result.zero', 'result.prefix', 'result.full',
        'bp128.decode32.prefix', 'bp128.deltadecode64.prefix',
        'rle.decode.prefix', 'elias.gamma.prefix', 'adaptive.BITMAP.prefix',
        'adaptive.PFOR.zero', 'for.decode.zero', 'group.decode.zero',
        'arr.len258-4097', 'arr.tableLength',
    ],
    assumptions=COMMON_ASSUME + [
        'encodings are produced by the library\'s own encoders into '
        'zero-filled destinations far larger than any published bound (size '
        'bounds are property C03); hostile encodings are property C14',
        'capacity <= element count: the property quantifies over capacities '
        'up to the count, and the headerless formats (RLE without header, '
        'BP128 32-bit/delta, adaptive DELTA/TAGGED) are documented to be '
        'decoded with at most the original count',
        'codec domains are respected: Elias values >= 1, BP128 32-bit values '
        '< 2^32, BP128 delta input non-decreasing, group 1..64 fields, forced '
        'BITMAP only for strictly increasing input < 65536, FOR meta '
        'zero-initialised, Elias decoders given meta.totalBits',
        'result policy: r <= capacity always; r == 0 when the data does not '
        'fit for the codecs that document failure (FOR Decode/BatchDecode, '
        'group, dictionary, RLE with header, adaptive FOR/PFOR/DICT); a '
        'correct prefix otherwise; the full array when capacity == count. '
        'Adaptive PFOR output values are not compared (its round trip '
        'belongs to C02/C06)',
        'the stack is zeroed before every adaptive encode so that the '
        'uninitialised varintFORMeta of varintAdaptiveEncodeWith (property '
        'C15) cannot abort the campaign',
    ],
)
