from common import COMMON_ASSUME

PROP = dict(
    harness=['c11_bitstream.c', 'c11_bitstream_u64.c', 'c11_bitstream_u32.c',
             'c11_bitstream_u16.c', 'c11_bitstream_u8.c'],
    level_text=('generated-input search over write sequences (up to 30 writes '
                'on a 6-word stream) for four word types, every bit position '
                'class, widths 1..W, zero / all-ones / random prior contents, '
                'with a reference bit vector compared against the whole '
                'stream and its guard words after every write, a read-back of '
                'the same range, and an exact-size allocation ending at the '
                'last word; sanitised, pinned-release and '
                'unoptimised-with-asserts builds; deterministic sweep of every '
                '(position, width) pair of every word type'),
    level_note=('trusts the reference bit vector (most significant bit of a '
                'word first, as the default uint64_t instantiation behaves and '
                'the header comment "we write in order" says), the harness '
                'decoders and the compilers; word/value type pairs of unequal '
                'width are not instantiated'),
    rule=('case = (word type u64/u32/u16/u8, prior contents, up to 30 records '
          '(bit offset with position uniform / W-1 / W-width / W-width+1, '
          'width 1..W, value raw / 0 / all-ones / single bit / alternating / '
          'one hole / top bit) or signed-helper records (width 2..W, '
          '|v| < 2^(width-1))); non-trivial = the range crosses a word '
          'boundary, or width == W, or a bit adjacent to the range was 1 '
          'before the write, or a signed-helper record; distinct by hash of '
          '(W, offset, width, value, adjacent bits)'),
    quick=dict(configs=['asan', 'rel', 'dbg'], cases=4000000, maxlen=340),
    thorough=dict(configs=['asan', 'rel', 'dbg'], cases=30000000, maxlen=340,
                  fuzz_s=120, setmax=1 << 23),
    required_classes=['u64.cross', 'u64.fullword', 'u64.end', 'u32.cross',
                      'u32.fullword', 'u32.end', 'u16.cross', 'u8.cross',
                      'u8.fullword', 'u64.signed.neg', 'u64.signed.fullwidth',
                      'u32.signed.neg', 'u8.signed.neg', 'u64.fill.random'],
    assumptions=COMMON_ASSUME + [
        'value < 2^width (asserted by the library), 1 <= width <= word size, '
        'offset + width <= stream size',
        'VBITS and VBITSVAL are the same unsigned type (uint64_t default, '
        'uint32_t as documented, uint16_t, uint8_t)',
        'signed helpers are used as in examples/standalone/'
        'example_bitstream.c: prepare only for negative values, on a '
        'vbitsVal variable; restore on the value read; -2^(width-1) is not '
        'representable',
    ],
)
