from common import COMMON_ASSUME

PROP = dict(
    technique='property-based testing: reference bit-vector model / API-level isolation oracle, sparse mapping for offsets around 2^32',
    # c11_bitstream.c includes c11_bitstream_huge.h (the "huge offset" class)
    harness=['c11_bitstream.c', 'c11_bitstream_u64.c', 'c11_bitstream_u32.c',
             'c11_bitstream_u16.c', 'c11_bitstream_u8.c'],
    level_text=('generated-input search over write sequences (up to 30 writes '
                'on a 6-word stream) for four word types, every bit position '
                'class, widths 1..W, zero / all-ones / random prior contents, '
                'with a reference bit vector compared against the whole '
                'stream and its guard words after every write, a read-back of '
                'the same range, and an exact-size allocation ending at the '
                'last word; sanitised, pinned-release and '
                'unoptimised-with-asserts builds; deterministic sweep of every '
                '(position, width) pair of every word type. One case in eight '
                'runs on a sparse stream of 2^33 + 2^19 bits (1 GiB mapping, '
                'few pages resident) with offsets around 2^31, 2^32, 3*2^31, '
                '2^33 and random huge ones: read-back, a word model of the '
                'watched windows (first 64 words, 4 words either side of the '
                'range and of the places its ends taken mod 2^32, mod 2^31 or '
                'as int32_t would alias to, pre-set to zeros / ones / random), '
                're-read of the field as two narrower fields, and (one huge '
                'case in four) a scan of every resident page for non-zero '
                'unwatched words; the sweep covers every width at every '
                'position containing, ending or starting at those four '
                'boundaries and straddling the word boundary after them'),
    level_note=('trusts the reference bit vector (most significant bit of a '
                'word first, as the default uint64_t instantiation behaves and '
                'the header comment "we write in order" says), the harness '
                'decoders and the compilers; the word model and the re-read as '
                'two narrower fields are only applied while a probe of the '
                'instantiation under test shows that documented bit order '
                '(class <type>.layout.documented) - the property does not fix '
                'which bit of a word a stream bit is kept in, so with any other '
                'order (class <type>.layout.other) the same cases are judged '
                'through the API alone: words that do not overlap the range '
                'byte-identical, the bits before and after the range inside '
                'the overlapping words unchanged as read by '
                'varintBitstreamGet, read-back of the range; word/value type pairs of unequal '
                'width are not instantiated; on the sparse stream a stray '
                'store is seen only inside the watched windows or (scanned '
                'cases) when it leaves a non-zero word; offsets beyond 2^33 + '
                '2^19 bits are not generated (a word index narrowed to 32 '
                'bits would need offsets >= 2^35 and is out of reach)'),
    rule=('case = (word type u64/u32/u16/u8, prior contents, up to 30 records '
          '(bit offset with position uniform / W-1 / W-width / W-width+1, '
          'width 1..W, value raw / 0 / all-ones / single bit / alternating / '
          'one hole / top bit) or signed-helper records (width 2..W, '
          '|v| < 2^(width-1))); 1 case in 8 is a huge-offset case: same '
          'records, offset = anchor (2^32, 2^33, 2^31, 3*2^31, random word, '
          'random word >= 2^32, low word, 2^32 +- 1024 words) + position '
          '(near / straddling the anchor / straddling a later word boundary / '
          'ending or starting at a word boundary); non-trivial = the range '
          'crosses a word boundary, or width == W, or a bit adjacent to the '
          'range was 1 before the write, or a signed-helper record, or (huge '
          'case) the last bit of the range is at offset >= 2^31; distinct by '
          'hash of (W, offset, width, value, adjacent bits / fill)'),
    quick=dict(configs=['asan', 'rel', 'dbg'], cases=4000000, maxlen=340),
    thorough=dict(configs=['asan', 'rel', 'dbg'], cases=30000000, maxlen=340,
                  fuzz_s=120, setmax=1 << 23),
    required_classes=['u64.cross', 'u64.fullword', 'u64.end', 'u32.cross',
                      'u32.fullword', 'u32.end', 'u16.cross', 'u8.cross',
                      'u8.fullword', 'u64.signed.neg', 'u64.signed.fullwidth',
                      'u32.signed.neg', 'u8.signed.neg', 'u64.fill.random'] +
    ['%s.huge.%s' % (t, c) for t in ('u64', 'u32', 'u16', 'u8')
     for c in ('cross.ge32', 'single.ge32', 'cross.ge31', 'single.ge31',
               'span32', 'span31', 'fullword')] +
    ['huge.at.2^32', 'huge.at.2^33', 'huge.at.2^31', 'huge.at.3*2^31',
     'huge.at.random', 'huge.at.random.ge32', 'huge.at.low',
     'huge.at.2^32.far', 'huge.fill.zeros', 'huge.fill.ones',
     'huge.fill.mixed', 'huge.scan'],
    assumptions=COMMON_ASSUME + [
        'value < 2^width (asserted by the library), 1 <= width <= word size, '
        'offset + width <= stream size',
        'huge-offset cases need 1.25 GiB of address space (MAP_NORESERVE); '
        'when mmap refuses, the case runs on the 6-word stream and '
        'huge.unavailable is counted (the huge.* required classes then '
        'starve, which the report shows)',
        'VBITS and VBITSVAL are the same unsigned type (uint64_t default, '
        'uint32_t as documented, uint16_t, uint8_t)',
        'signed helpers are used as in examples/standalone/'
        'example_bitstream.c: prepare only for negative values, on a '
        'vbitsVal variable; restore on the value read; -2^(width-1) is not '
        'representable',
    ],
)
