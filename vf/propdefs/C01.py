from common import COMMON_ASSUME

PROP = dict(
    technique='property-based testing (rapidcheck byte-string cases, boundary sweeps, exhaustive 2^32 sub-domain in the thorough tier) with round-trip, four-way length agreement, reference-length and canary oracles in four build configurations; libFuzzer in the thorough tier',
    harness=['c01_scalar.c', 'vf_ref.c'],
    level_text=('generated-input search: every scalar family, every function '
                'and macro entry point, legal fixed widths, alignments, in the '
                'sanitised, pinned-release and unoptimised-with-asserts builds; '
                'round-trip + four-way length agreement + reference length + '
                'canary oracle; exhaustive only for the +-300 neighbourhood of '
                'every format boundary'),
    level_note=('trusts the harness decoders of the case bytes, the reference '
                'length functions in harness/vf_ref.c (validated against their '
                'own decoder in C04) and the compilers; not exhaustive over '
                '2^64'),
    rule=('case = (family, put entry point, alignment 0..15, background fill, '
          'up to 8 boundary-biased values with a fixed-width selector); '
          'non-trivial = encoded length >= 3, or value within +-2 of a table '
          'boundary, or a fixed-width / quick-macro / reversed / 32-bit / '
          'sign-helper entry point; distinct by hash of (family, entry point, '
          'value, width selector)'),
    quick=dict(configs=['asan', 'rel', 'dbg', 'native'], cases=3000000, maxlen=96),
    thorough=dict(configs=['asan', 'rel', 'dbg', 'native'], cases=40000000, maxlen=96,
                  fuzz_s=60, setmax=1 << 23,
                  extra_sweeps=[dict(name='u32', parts=16, configs=['rel'])]),
    required_classes=['signed', 'tagged.len9', 'splitFull16.len9',
                      'chained.len9', 'externalBE.PutFixedWidthQuick_',
                      'split.ReversedPutReversed_'],
    assumptions=COMMON_ASSUME + [
        'destination buffers have the 9 bytes the headers require; untouched '
        'bytes are checked with canaries',
        'tagged fixed widths are restricted to widths whose form can represent '
        'the value (w=2: 240..2287, w=3: 2288..67823, w>=4: v < 2^(8(w-1)))',
    ],
)
