from common import COMMON_ASSUME

PROP = dict(
    harness=['c06_adaptive.c', 'vf_arr.c'],
    level_text=('generated-input search over arrays steered through every '
                'branch of the selection tree (distinct ratio around 0.15 and '
                '0.9, exact and sampled; maximum around 65536; ascending, '
                'descending, unsorted; density around 0.05; length around '
                '10000; average delta around 1000 and min/10; outlier share '
                'around 0.05; range around 100 n and 2^64/95; dictionary '
                'payloads around 1 MiB on the thorough tier), automatic '
                'selection and every forced encoding inside its documented '
                'domain; decode-and-compare plus header/metadata agreement, '
                'in the sanitised and the pinned-release build; a '
                'deterministic grid over small arrays around each threshold'),
    level_note=('trusts the harness generators and its own statistics (used '
                'for class counters and for the > 1 MiB exclusion only); not '
                'exhaustive; arrays above 100000 values only in the > 1 MiB '
                'class'),
    rule=('case = (generator, size class, forced-encoding mask, generator '
          'arguments). Generators: shared array shapes (vf_arr), strictly '
          'increasing < 65536, four steer generators taking the thresholds '
          'of the selection tree as arguments (distinct count / order / '
          'maximum / density; monotone with chosen average delta; cluster + '
          'outliers with chosen width, range and outlier count; n > 10000 '
          'with a chosen distinct count of the every-10th-value sample), '
          'pairs of equal-length arrays encoded back to back, and (thorough '
          'tier) few-distinct arrays of ~2^19 / ~2^20 values. One evaluation '
          '= one encode/decode round trip (automatic or one forced '
          'encoding). Non-trivial = count >= 2 and the selected/forced '
          'encoding is not TAGGED, or count > 10000; distinct by hash of '
          '(array, encoding, automatic/forced). Known finding '
          'C06-dict-over-1MiB: a round trip is excluded (and counted) when '
          'the DICT payload size computed by the harness from the array '
          'alone (tagged length of the distinct count, of every distinct '
          'value and of the count, plus count * index width) exceeds '
          '1 048 576 bytes and the encoding in use is DICT - for forced '
          'DICT that is the request, for automatic selection it is read '
          'from the header byte the encoder produced'),
    quick=dict(configs=['asan', 'rel'], cases=1000000, maxlen=160),
    thorough=dict(configs=['asan', 'rel'], cases=8000000, maxlen=200,
                  fuzz_s=120, setmax=1 << 23),
    case_timeout=300,
    required_classes=[
        'auto.DELTA', 'auto.FOR', 'auto.PFOR', 'auto.DICT', 'auto.BITMAP',
        'auto.TAGGED',
        'forced.DELTA', 'forced.FOR', 'forced.PFOR', 'forced.DICT',
        'forced.BITMAP', 'forced.TAGGED',
        'br.uniq<0.15', 'br.uniq0.15-0.9', 'br.uniq>0.9',
        'edge.uniq0.15', 'edge.uniq0.9',
        'br.max<65536', 'br.max>=65536', 'edge.max65536',
        'br.asc', 'br.desc', 'br.unsorted',
        'br.density>0.05', 'br.density<=0.05', 'edge.density0.05',
        'br.count<10000', 'br.count=10000', 'br.count>10000',
        'br.count>10000.sampled',
        'br.bitmapGate.count>=10000',
        'br.sampled.misjudged0.15', 'br.sampled.misjudged0.9',
        'br.avgDelta<1000', 'br.avgDelta>=1000', 'edge.avgDelta1000',
        'br.avgDelta<min/10', 'br.avgDelta>=min/10', 'edge.avgDeltaMin10',
        'br.outlier<0.05', 'br.outlier>=0.05', 'edge.outlier0.05',
        'br.range<100n', 'br.range>=100n', 'edge.range100n',
        'br.range95.overflow', 'edge.range95.overflow',
        'pair',
    ],
    assumptions=COMMON_ASSUME + [
        'arrays have at least one element; the decoder is given the original '
        'count',
        'the encode destination has varintAdaptiveMaxSize(count) + 16*count + '
        '1024 bytes (guarded): whether the advertised bound itself holds is '
        'C03',
        'BITMAP is forced only for strictly increasing values below 65536; '
        'GROUP (declared "future") is never forced',
        'the decoder reads from the (larger) encode buffer: over-reads of a '
        'tight input are C14',
        'dictionary payloads above 1 MiB are generated on the thorough tier '
        'only (and by the known-finding witness)',
    ],
)
