from common import COMMON_ASSUME

PROP = dict(
    technique='property-based testing: header round-trip and whole-buffer diff (cell isolation) oracles, sparse mappings for huge shapes',
    harness=['c10_dimension.c'],
    level_text=('generated-input search over pair headers (all 72 width '
                'combinations with values at the width-class edges), packed '
                'pairs (every nibble level edge and unsupported pairs) and '
                'cell-write histories on real matrices (<= 40 x 300 cells, '
                'the first rows / first columns of row 0 behind headers of '
                'every width, and the first and last columns of rows 0..2 of '
                'sparsely mapped matrices with up to 2^41 cells); '
                'whole-buffer diff after every write, reference 2-D array, '
                'exact-size buffers; sanitised, '
                'pinned-release and F16C builds; deterministic sweep of the '
                'width grid and of small matrices'),
    level_note=('trusts the harness decoders, the little-endian reference '
                'reader, the half->float reference conversion and the '
                'compilers; cells of matrices too large to allocate are only '
                'addressed in their first rows and first/last columns (sparse '
                'mappings are capped at 2^38 bytes, so rows >= 1 are reached '
                'for column widths up to 5-6 bytes only); in a sparse mapping '
                'only the pages of the header and of the addressed column '
                'windows are compared'),
    rule=('case = pair headers (rows width 0..8, cols width 1..8, values at '
          'lo/hi/lo+1/hi-1/0x80.. /random inside the width class) | packed '
          'pairs (level 1..8 edges, or max >= 2^32) | matrix (declared shape, '
          'entry type bit/unsigned 1..8 bytes/float/double/half, prior '
          'contents zeros/ones/random, dense / prefix / sparse mapping, up '
          'to 30 cell writes, then optionally the image of a second matrix '
          '(same rows, 1..8 fewer columns) copied over the used address '
          'and a second history there); non-trivial = '
          'header with a width >= 3 bytes, or packed pair with max >= 256, or '
          'a cell write followed by a neighbour read in a matrix with >= 2 '
          'rows, or a bit cleared; distinct by hash of (rows, cols) resp. '
          '(shape, entry type, cell, value, neighbour)'),
    quick=dict(configs=['asan', 'rel', 'simd'], cases=2000000, maxlen=400),
    thorough=dict(configs=['asan', 'rel', 'simd'], cases=16000000, maxlen=400,
                  fuzz_s=120, setmax=1 << 23),
    required_classes=['hdr.rw0', 'hdr.rw8', 'hdr.cw5', 'hdr.cw8',
                      'packed.level8', 'packed.reject', 'mx.bit', 'mx.u8',
                      'mx.u64', 'mx.float', 'mx.double', 'mx.vector',
                      'mx.rows2+', 'mx.colwidth5+', 'mx.sparse.colwidth5+',
                      'cell.sparse.row1+', 'bit.cleared',
                      'bit.toggle', 'cell.lastrow', 'cell.lastcol', 'reloc.on',
                      'reloc.same-widths'],
    assumptions=COMMON_ASSUME + [
        'cols >= 1 for every header; packed pairs may be (0,0)',
        'header widths must be inside the format (rows 0..8, cols 1..8 bytes) '
        'and wide enough for the counts, a packed level must be 1..8 and wide '
        'enough for the larger coordinate; that the pinned code picks the '
        'narrowest ones is counted (classes hdr.widths.minimal/wider, '
        'packed.level.minimal/wider), not required - the header length used '
        'for the matrix buffers is the one varintDimensionPairDimension '
        'announces',
        'matrix buffers hold header + rows*cols*entry bytes (bits: rounded '
        'up to a byte) and the dimension value passed to the cell accessors '
        'is the one returned by varintDimensionPairEncode',
        'cell coordinates are inside the part of the matrix that exists; '
        'with a declared column count too large to allocate either only row '
        '0 is addressed (exact allocation) or rows 0..2 of a MAP_NORESERVE '
        'mapping; with a vector (rows == 0) only row 0',
        'a cell lives at header + (row*cols+col)*width (bits: in the byte '
        'header + (row*cols+col)/8), as the accessor code and the header '
        'comment on boolean matrices describe',
        'half-float cells exist only in builds with F16C (config simd); '
        'values written there are exactly representable halves (quiet NaNs '
        'only)',
        'the position of a bit inside its byte and the byte order inside '
        'an entry are not constrained, only that nothing outside the '
        "cell's bytes (bits: exactly one bit of its byte) changes",
    ],
)
