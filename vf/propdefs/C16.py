from common import COMMON_ASSUME

PROP = dict(
    harness=['c16_meta.c', 'vf_arr.c', 'vf_ref.c'],
    level_text=('generated-input search: for FOR (scalar and batch encoder), '
                'PFOR (three thresholds), group, RLE (both forms), Elias '
                'gamma/delta, BP128 (all four), adaptive (auto and the six '
                'forced encodings) and float (4 precisions x 3 modes) the '
                'harness computes the ground truth from the input array and '
                'from the bytes written (extent measured through two '
                'complementary destination fills, stored exception list '
                'parsed with the reference tagged-varint decoder) and compares '
                'it with every metadata field and header accessor; decoding '
                'with capacity n must yield the reported count; up to four '
                'records are encoded back to back and re-found from the '
                'reported sizes alone; deterministic sweep of every length '
                '1..300 and the 384/512/2288/4096 neighbourhoods'),
    level_note=('trusts the harness-side truth functions (tagged length, byte '
                'width, Elias code lengths, BP128 block layout, run counting: '
                'written from the documented formats in c13_codecs.h / '
                'c16_meta.c), the reference tagged decoder of vf_ref.c and the '
                'compilers. Not compared by design: varintRLEMeta.uniqueValues, '
                'varintBP128GetCount on formats without a count header, '
                'ReadMetadata.range/maxValue, ReadMeta of non-FOR/PFOR adaptive '
                'encodings, the PFOR size predictor (only >= bytes written), '
                'varintFloatReadMeta/Analyze (not defined in the tree)'),
    rule=('case = (codec, variant, record count 1..4, array descriptors: '
          'record 0 up to 4200 elements (1/8 of the cases up to 20000; group '
          '64 fields; adaptive auto 2300), further records up to 300); '
          'non-trivial = record with count >= 2 (its count field already '
          'differs from the one-element array); distinct by hash of (codec, '
          'variant, array contents)'),
    quick=dict(configs=['asan', 'rel', 'native'], cases=600000, maxlen=200),
    thorough=dict(configs=['asan', 'rel', 'native'], cases=4000000, maxlen=300,
                  fuzz_s=120, setmax=1 << 23),
    case_timeout=30,
    required_classes=[
        'for', 'for.batch', 'pfor', 'group', 'rle', 'rle.header',
        'elias.gamma', 'elias.delta', 'bp128.32', 'bp128.64', 'bp128.delta32',
        'bp128.delta64', 'adaptive.auto', 'adaptive.DELTA', 'adaptive.FOR',
        'adaptive.PFOR', 'adaptive.DICT', 'adaptive.BITMAP',
        'adaptive.TAGGED', 'float',
        'adaptive.auto.DELTA', 'adaptive.auto.FOR', 'adaptive.auto.PFOR',
        'adaptive.auto.DICT', 'adaptive.auto.BITMAP', 'adaptive.auto.TAGGED',
        'count<=240', 'count241-2287', 'count>=2288', 'count%128==0',
        'count%128==1', 'bp128.lastBlockFull', 'pfor.exceptions',
        'rle.runs>=2', 'walk.records2', 'walk.records4', 'arr.tableLength',
    ],
    assumptions=COMMON_ASSUME + [
        'codec domains are respected: count >= 1, Elias values >= 1, BP128 '
        '32-bit values < 2^32, BP128 delta input non-decreasing, group 1..64 '
        'fields, forced BITMAP only for strictly increasing input < 65536, '
        'FOR/PFOR meta zero-initialised as documented, PFOR thresholds from '
        'the three published constants',
        'destinations are far larger than any published bound (bounds are '
        'property C03); decoders get exactly the original count as capacity',
        'the Elias encoders zero their whole worst-case area before writing, '
        'so their byte extent is not measured (their return value is compared '
        'with ceil(totalBits/8) and the reference code lengths instead)',
        'PFOR: which width the encoder chooses is its own business (percentile '
        'range, marker-collision handling); the truth for width, marker and '
        'exception count is the stored layout [min][width][count][values]'
        '[exception count][(index, value)...], which must end exactly at the '
        'encoder\'s return value; an encoder returning 0 for an in-domain '
        'array is reported as a violation (no allocation failures are '
        'injected)',
        'BP128 delta formats with a single value have no block: '
        'lastBlockSize is not compared there',
        'walking compares each re-found record with its own first decode, not '
        'with the input (losslessness is C02/C06)',
        'the stack is zeroed before every adaptive encode so that the '
        'uninitialised varintFORMeta of varintAdaptiveEncodeWith (property '
        'C15) cannot abort the campaign',
    ],
)
