from common import COMMON_ASSUME

PROP = dict(
    technique='property-based testing: reported metadata vs semantic ground truth, bytes reported/modified and cross-source agreement',
    harness=['c16_meta.c', 'vf_arr.c'],
    level_text=('generated-input search: for FOR (scalar and batch encoder), '
                'PFOR (three thresholds), group, RLE (both forms), Elias '
                'gamma/delta, BP128 (all four), adaptive (auto and the six '
                'forced encodings) and float (4 precisions x 3 modes) every '
                'metadata field and header accessor is compared with (1) the '
                'truth computable from the input alone (count, min, max, range, '
                'normalised group field widths, Elias code lengths, BP128 block '
                'structure and widest packed number, maximal runs as a lower '
                'bound), (2) the encoder\'s return value, which must also equal '
                'the extent of the bytes really modified (two complementary '
                'destination fills), (3) the other sources reporting the same '
                'quantity (encoder meta == header reader '
                'for FOR/PFOR width, PFOR exception count and marker, RLE run '
                'count, adaptive type) with plausibility bounds from the input, '
                'and (4) decoding: capacity n must yield the reported count, '
                'RLE runs are walked with varintRLEDecodeRun, up to four records '
                'are encoded back to back and re-found from the reported sizes '
                'alone; deterministic sweep of every length 1..300 and the '
                '384/512/2288/4096 neighbourhoods. The byte layout of the array '
                'codecs is never parsed by the harness (no property pins it)'),
    level_note=('trusts the harness-side truth functions (byte width, bit '
                'width, Elias code lengths, run counting, block arithmetic: '
                'c13_codecs.h / c16_meta.c) and the compilers. A quantity that '
                'is the encoder\'s own choice (FOR/PFOR width, which values '
                'PFOR patches, how RLE splits runs) is only checked for '
                'agreement between its sources and for plausibility: a defect '
                'that makes encoder meta and header reader agree on a '
                'wrong-but-plausible number is out of reach (it would be a '
                'lossless-ness defect, C02/C06). Not compared by design: '
                'varintRLEMeta.uniqueValues, varintBP128GetCount on formats '
                'without a count header, ReadMetadata.range/maxValue, ReadMeta '
                'of non-FOR/PFOR adaptive encodings, the PFOR size predictor '
                '(only >= bytes written), the header length returned by '
                'varintPFORReadMeta / varintAdaptiveReadMeta (only 0 < h <= '
                'bytes written), varintFloatReadMeta/Analyze (not defined in '
                'the tree)'),
    rule=('case = (codec, variant, record count 1..4, array descriptors: '
          'record 0 up to 4200 elements (1/8 of the cases up to 20000; group '
          '64 fields; adaptive auto 2300), further records up to 300); '
          'non-trivial = record with count >= 2 (its count field already '
          'differs from the one-element array); distinct by hash of (codec, '
          'variant, array contents)'),
    quick=dict(configs=['asan', 'rel', 'native'], cases=600000, maxlen=200),
    thorough=dict(configs=['asan', 'rel', 'native'], cases=4000000, maxlen=300,
                  fuzz_s=120, setmax=1 << 23),
    case_timeout=30,
    required_classes=[
        'for', 'for.batch', 'pfor', 'group', 'rle', 'rle.header',
        'elias.gamma', 'elias.delta', 'bp128.32', 'bp128.64', 'bp128.delta32',
        'bp128.delta64', 'adaptive.auto', 'adaptive.DELTA', 'adaptive.FOR',
        'adaptive.PFOR', 'adaptive.DICT', 'adaptive.BITMAP',
        'adaptive.TAGGED', 'float',
        'adaptive.auto.DELTA', 'adaptive.auto.FOR', 'adaptive.auto.PFOR',
        'adaptive.auto.DICT', 'adaptive.auto.BITMAP', 'adaptive.auto.TAGGED',
        'count<=240', 'count241-2287', 'count>=2288', 'count%128==0',
        'count%128==1', 'bp128.lastBlockFull', 'pfor.exceptions',
        'pfor.unrepresentable',
        'rle.runs>=2', 'walk.records2', 'walk.records4', 'arr.tableLength',
    ],
    assumptions=COMMON_ASSUME + [
        'codec domains are respected: count >= 1, Elias values >= 1, BP128 '
        '32-bit values < 2^32, BP128 delta input non-decreasing, group 1..64 '
        'fields, forced BITMAP only for strictly increasing input < 65536, '
        'FOR/PFOR meta zero-initialised as documented, PFOR thresholds from '
        'the three published constants',
        'destinations are far larger than any published bound (bounds are '
        'property C03); decoders get exactly the original count as capacity',
        'the Elias encoders zero their whole worst-case area before writing, '
        'so their byte extent is not measured (totalBits is compared with the '
        'mathematical code lengths and encodedBytes with the documented '
        'ceil(totalBits/8) instead)',
        'PFOR: which width the encoder chooses and which values it patches is '
        'its own business (percentile range, marker-collision handling), and '
        'so is the stored layout: width, marker and exception count are '
        'checked for agreement between the encoder\'s meta and '
        'varintPFORReadMeta (what a decoder leaves in the caller\'s '
        'varintPFORMeta is undocumented and not looked at), and against the input (1 <= width <= 8, '
        'marker = all-ones of width bytes, values whose offset does not fit '
        'width bytes <= exceptionCount <= count); an encoder returning 0 for '
        'an in-domain array is reported as a violation (no allocation failures '
        'are injected)',
        'FOR: offsetWidth must agree between meta, ReadMetadata and '
        'GetOffsetWidth, be 1..8 and hold the range; minimality is not '
        'required',
        'RLE: the run count truth is the number of runs varintRLEDecodeRun '
        'finds in the headerless encoding of the array (for the header form '
        'the same array is encoded once more without header); it must be at '
        'least the number of maximal runs; a zero-length run or trailer after '
        'the last run is tolerated',
        'BP128 delta formats pack the count-1 differences (the first value is '
        'not a packed number): blockCount/lastBlockSize/maxBitWidth refer to '
        'them',
        'BP128 delta formats with a single value have no block: '
        'lastBlockSize is not compared there',
        'walking compares each re-found record with its own first decode, not '
        'with the input (losslessness is C02/C06)',
        'the stack is zeroed before every adaptive encode so that the '
        'uninitialised varintFORMeta of varintAdaptiveEncodeWith (property '
        'C15) cannot abort the campaign',
    ],
)
