from common import COMMON_ASSUME

PROP = dict(
    technique='property-based testing: metamorphic order relation (memcmp order vs numeric order) on generated pairs and tuples',
    harness=['c05_order.c', 'vf_ref.c'],
    level_text=('generated-input search over pairs and short tuples: the sign '
                'of memcmp over the common length of two tagged encodings must '
                'equal the numeric order, equal values must give identical '
                'bytes, and memcmp of concatenated keys must equal the '
                'lexicographic order of the value tuples (arity 1..4); pairs '
                'are equal, adjacent, straddling each length boundary, '
                'differing in one payload byte, or independent, in both '
                'argument orders; exhaustive only for the +-300 neighbourhood '
                'of every format boundary and all pairs of length-class edges'),
    level_note=('the oracle is integer comparison; trusts the case decoder, '
                'memcmp and the compilers; the one-byte-difference generator '
                'uses the reference tagged encoder/decoder of harness/vf_ref.c '
                'only to construct inputs; 2^128 pairs are sampled, not '
                'enumerated'),
    rule=('case = (arity 1..4, entry point Put64 | Put64FixedWidth at the '
          'canonical width | LenQuick + Put64FixedWidthQuick_ (the '
          'key-building macros) | Put64(v-d)+AddGrow(+d) | '
          'Put64(v+d)+AddGrow(-d) '
          'compared with a directly written key, per position a pair kind '
          'and its values); '
          'non-trivial = some position has a != b and (their encoded lengths '
          'differ, or the encodings have equal length and differ in exactly '
          'one payload byte); distinct by hash of (arity, entry point, all '
          'values)'),
    quick=dict(configs=['asan', 'rel', 'native'], cases=16000000, maxlen=80),
    thorough=dict(configs=['asan', 'rel', 'native'], cases=100000000, maxlen=80,
                  fuzz_s=60, setmax=1 << 23),
    required_classes=['entry.quick-macros', 'pair.equal', 'pair.adjacent', 'pair.straddle',
                      'pair.onebyte', 'pair.independent', 'boundary.adjacent',
                      'lengths.1-2', 'lengths.2-3', 'lengths.3-4',
                      'lengths.4-5', 'lengths.5-6', 'lengths.6-7',
                      'lengths.7-8', 'lengths.8-9', 'samelen.2.onebyte',
                      'samelen.3.onebyte', 'samelen.6.onebyte',
                      'samelen.9.onebyte', 'tuple.arity2.later',
                      'tuple.arity4.later', 'tuple.arity3.equal'],
    assumptions=COMMON_ASSUME + [
        'keys are the canonical encodings produced by varintTaggedPut64 (or '
        'Put64FixedWidth at the width varintTaggedLen reports); wider '
        'fixed-width encodings are not canonical and are not claimed to sort',
        'destination buffers have the 9 bytes the header requires',
    ],
)
