from common import COMMON_ASSUME

PROP = dict(
    technique='fault enumeration over generated inputs: every k-th allocation of every allocating API fails once (allocation interposer); functional, leak and object-consistency oracles',
    harness=['c18_oom.c', 'vf_arr.c', 'vf_ref.c'],
    level='fault_enumeration',
    alloc=True,
    replay_config='oom',
    level_text=('fault enumeration over generated inputs: for each allocating '
                'API (27 entry points: dictionary create/build/encode/'
                'encoded-size/decode/decode-into/stats, PFOR compute-threshold/'
                'encode, float encode/decode, adaptive count-unique/analyze/'
                'encode/encode-with and decode of each of the 6 types, bitmap '
                'create/clone/add/remove/add-range/add-many/and/or/xor/and-not/'
                'decode in ARRAY, BITMAP and RUNS states and at the 4096 '
                'conversion edges) the call is run fault-free counting its '
                'allocations n, then n times with the k-th allocation failing; '
                'every allocation of the call is failed, not a sample. '
                'Oracles: process survives under ASan; documented failure '
                'value or a result passing the functional oracle; live-block '
                'differential against the fault-free run; long-lived objects '
                'read back against a model and used again. Functional oracles '
                'use public APIs only: a reported-successful encoding is '
                'decoded by the library\'s own decoder (zero padded copy, then '
                'exact-size copy under the ASan redzone) and compared with the '
                'input; bitmaps are read through iterator / cardinality / '
                'contains, dictionaries through size / lookup / find and an '
                'encode-decode round trip; analysis results (PFOR threshold '
                'meta, dictionary statistics split) are compared with the '
                'fault-free run of the same call'),
    level_note=('exhaustive in k for each generated (API, input); the inputs '
                'themselves are generated (rapidcheck) plus a fixed sweep of '
                'every API x container state; trusts the compile-time '
                'malloc/calloc/realloc/free rename of harness/vf_alloc.h (only '
                'allocations made by /repo/src/*.c are failed, libc-internal '
                'ones such as qsort scratch are not), the 65536-bit set model '
                'and the round-trip decoders run fault-free; assumes no wire '
                'layout of the PFOR / dictionary / float / bitmap streams and '
                'no bitmap container type (state names are construction '
                'recipes), so a decoder that crashes or over-reads on bytes a '
                'faulted call reported as a successful encoding is itself the '
                'violation (crash capture of the in-flight case)'),
    rule=('case = (api, state, 4 parameter bytes, array descriptor); one '
          'evaluation per (API, input, k) triple plus the fault-free run; '
          'the adaptive analysis / encode APIs also get arrays above 10000 '
          'elements, half of them sampler-fooling (every k-th element one '
          'common value, the rest distinct); '
          'non-trivial = k > 1 or the failed allocation site lies in a callee '
          'of the API; distinct by hash of (api, state, parameters, array, k); '
          'classes site.<api>@<function:line> list every failed site, '
          'outcome.<api>.* what the call did'),
    quick=dict(configs=['oom'], cases=800000, maxlen=160),
    thorough=dict(configs=['oom'], cases=8000000, maxlen=300, fuzz_s=0,
                  setmax=1 << 23),
    case_timeout=60,
    required_classes=[
        'api.dict.create', 'api.dict.build', 'api.dict.encode',
        'api.dict.encodedsize', 'api.dict.decode', 'api.dict.decodeinto',
        'api.dict.stats', 'api.pfor.threshold', 'api.pfor.encode',
        'api.float.encode', 'api.float.decode', 'api.adaptive.countunique',
        'api.adaptive.analyze', 'api.adaptive.encode',
        'api.adaptive.encodewith.DELTA', 'api.adaptive.encodewith.PFOR',
        'api.adaptive.encodewith.DICT', 'api.adaptive.encodewith.BITMAP',
        'api.adaptive.decode.DICT', 'api.adaptive.decode.BITMAP',
        'api.bitmap.create', 'api.bitmap.clone', 'api.bitmap.add',
        'api.bitmap.remove', 'api.bitmap.addrange', 'api.bitmap.addmany',
        'api.bitmap.and', 'api.bitmap.or', 'api.bitmap.xor',
        'api.bitmap.andnot', 'api.bitmap.decode',
        'state.empty', 'state.array-small', 'state.array-edge',
        'state.bitmap-edge', 'state.bitmap-big', 'state.runs-single',
        'state.runs-small', 'state.runs-large',
    ],
    assumptions=COMMON_ASSUME + [
        'exactly one allocation fails per call (the property speaks about a '
        'single failed allocation)',
        'a fault-free call that already fails its functional oracle is '
        'another property\'s finding (C02/C06/C07/C08): skipped and counted '
        'as baseline-unusable.<api>',
        'varintAdaptiveCountUnique is documented as approximate: `count` is '
        'accepted as its out-of-memory answer; varintPFORComputeThreshold '
        'reports failure through a zeroed meta',
        'multi-run pre-states are reached by handing varintBitmapDecode '
        'hand-built bytes in the present run wire form (sorted, disjoint '
        'runs); these bytes are generator input only: if the decoder rejects '
        'them or yields another set than the model, the fault-free run '
        'notices and the case is skipped (baseline-unusable), no verdict '
        'treats them as a valid encoding; encoders get buffers larger than '
        'any bound (bounds are C03)',
    ],
)
