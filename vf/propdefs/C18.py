from common import COMMON_ASSUME

PROP = dict(
    harness=['c18_oom.c', 'vf_arr.c', 'vf_ref.c'],
    level='fault_enumeration',
    alloc=True,
    replay_config='oom',
    level_text=('fault enumeration over generated inputs: for each allocating '
                'API (27 entry points: dictionary create/build/encode/'
                'encoded-size/decode/decode-into/stats, PFOR compute-threshold/'
                'encode, float encode/decode, adaptive count-unique/analyze/'
                'encode/encode-with and decode of each of the 6 types, bitmap '
                'create/clone/add/remove/add-range/add-many/and/or/xor/and-not/'
                'decode in ARRAY, BITMAP and RUNS states and at the 4096 '
                'conversion edges) the call is run fault-free counting its '
                'allocations n, then n times with the k-th allocation failing; '
                'every allocation of the call is failed, not a sample. '
                'Oracles: process survives under ASan; documented failure '
                'value or a result passing the functional oracle; live-block '
                'differential against the fault-free run; long-lived objects '
                'read back against a model and used again'),
    level_note=('exhaustive in k for each generated (API, input); the inputs '
                'themselves are generated (rapidcheck) plus a fixed sweep of '
                'every API x container state; trusts the compile-time '
                'malloc/calloc/realloc/free rename of harness/vf_alloc.h (only '
                'allocations made by /repo/src/*.c are failed, libc-internal '
                'ones such as qsort scratch are not), the 65536-bit set model '
                'and the round-trip decoders run fault-free'),
    rule=('case = (api, state, 4 parameter bytes, array descriptor); one '
          'evaluation per (API, input, k) triple plus the fault-free run; '
          'non-trivial = k > 1 or the failed allocation site lies in a callee '
          'of the API; distinct by hash of (api, state, parameters, array, k); '
          'classes site.<api>@<function:line> list every failed site, '
          'outcome.<api>.* what the call did'),
    quick=dict(configs=['oom'], cases=800000, maxlen=160),
    thorough=dict(configs=['oom'], cases=8000000, maxlen=300, fuzz_s=0,
                  setmax=1 << 23),
    case_timeout=60,
    required_classes=[
        'api.dict.create', 'api.dict.build', 'api.dict.encode',
        'api.dict.encodedsize', 'api.dict.decode', 'api.dict.decodeinto',
        'api.dict.stats', 'api.pfor.threshold', 'api.pfor.encode',
        'api.float.encode', 'api.float.decode', 'api.adaptive.countunique',
        'api.adaptive.analyze', 'api.adaptive.encode',
        'api.adaptive.encodewith.DELTA', 'api.adaptive.encodewith.PFOR',
        'api.adaptive.encodewith.DICT', 'api.adaptive.encodewith.BITMAP',
        'api.adaptive.decode.DICT', 'api.adaptive.decode.BITMAP',
        'api.bitmap.create', 'api.bitmap.clone', 'api.bitmap.add',
        'api.bitmap.remove', 'api.bitmap.addrange', 'api.bitmap.addmany',
        'api.bitmap.and', 'api.bitmap.or', 'api.bitmap.xor',
        'api.bitmap.andnot', 'api.bitmap.decode',
        'state.empty', 'state.array-small', 'state.array-edge',
        'state.bitmap-edge', 'state.bitmap-big', 'state.runs-single',
        'state.runs-small', 'state.runs-large',
    ],
    assumptions=COMMON_ASSUME + [
        'exactly one allocation fails per call (the property speaks about a '
        'single failed allocation)',
        'a fault-free call that already fails its functional oracle is '
        'another property\'s finding (C02/C06/C07/C08): skipped and counted '
        'as baseline-unusable.<api>',
        'varintAdaptiveCountUnique is documented as approximate: `count` is '
        'accepted as its out-of-memory answer; varintPFORComputeThreshold '
        'reports failure through a zeroed meta',
        'run containers below 4096 members are reached through '
        'varintBitmapDecode of a well-formed run encoding (sorted, disjoint '
        'runs); encoders get buffers larger than any bound (bounds are C03)',
    ],
)
