from common import COMMON_ASSUME

PROP = dict(
    technique='property-based testing: differential against independently written reference encoders (from the format documents), canonicity and monotonicity relations',
    harness=['c04_wire.c', 'vf_ref.c'],
    level_text=('generated-input search against an independent reference: '
                'every forward put entry point (functions and macros) of the '
                'nine scalar families is compared byte for byte and length for '
                'length with encoders written from the documents (sqlite4 '
                'ENCODE paragraph, A/B/C table, LEB128 with a nine-byte cap, '
                'v >> 8i slices, the split "Data Layout" comments and README '
                'maxima table); Elias gamma/delta bit streams against textbook '
                'bit strings (MSB first, unaligned starts, array entry point), '
                'zig-zag against n>=0 ? 2n : -2n-1; length monotonicity on '
                'adjacent, offset and independent pairs; documented per-length '
                'maxima and exported constants; in the sanitised, '
                'pinned-release and unoptimised-with-asserts builds; '
                'exhaustive only for the +-300 neighbourhood of every format '
                'boundary'),
    level_note=('trusts harness/vf_ref.c (validated per value by decoding its '
                'own output with the reference decoder and by the documented '
                'maxima tables; a disagreement is reported as '
                'harness.selfcheck), the case decoder and the compilers; not '
                'exhaustive over 2^64'),
    rule=('case = (family | Elias gamma | Elias delta | zig-zag, alignment, '
          'fill, up to 8 records); family record = single boundary-biased '
          'value, adjacent pair (v, v+1), pair (v, v+delta) or independent '
          'pair a < b, plus a wider-fixed-width selector; Elias record = bit '
          'offset 0..7 and 1..4 values >= 1; zig-zag record = signed value; '
          'non-trivial = encoded length >= 2, value within +-2 of a table '
          'boundary, or an adjacent pair whose lengths differ (Elias: some '
          'value > 1; zig-zag: n != 0); distinct by hash of (kind, values)'),
    quick=dict(configs=['asan', 'rel', 'dbg', 'native'], cases=14000000, maxlen=96),
    thorough=dict(configs=['asan', 'rel', 'dbg', 'native'], cases=80000000, maxlen=96,
                  fuzz_s=60, setmax=1 << 23),
    required_classes=['tagged.len9', 'chained.len9', 'chainedSimple.len9',
                      'split.len9', 'splitFull.len9', 'splitFullNoZero.len9',
                      'splitFull16.len9', 'externalLE.len8', 'externalBE.len8',
                      'pair.boundary.adjacent', 'pair.crosses.length',
                      'tagged.fixedwidth.wider', 'externalBE.fixedwidth.wider',
                      'elias.gamma', 'elias.delta', 'elias.bits64',
                      'elias.unaligned', 'zigzag.neg', 'zigzag.int64min',
                      'zigzag.int64max', 'sweep.maxima'],
    assumptions=COMMON_ASSUME + [
        'destination buffers have the 9 bytes the headers require',
        'split-full-no-zero is only given v >= 1, Elias codes only N >= 1',
        'tagged fixed widths wider than minimal are restricted to widths whose '
        'form can represent the value and are checked with the documented '
        'DECODE rule, not for canonicity',
        'VARINT_SPLIT_FULL[_NO_ZERO]_STORAGE_3 may equal either documented '
        '3-byte figure (first-level maximum 4210749/4210750 or overall '
        'maximum 4276284/4276285): varint.h uses it as the second-level base',
        'documentation inconsistencies of DESIGN 2.6 are resolved toward the '
        'README table and the code (split 3-byte max 81981; no-zero offsets)',
    ],
)
