from common import COMMON_ASSUME

PROP = dict(
    harness=['c07_float.c'],
    level_text=('generated-input search over arrays of IEEE-754 doubles built '
                'from separately drawn sign / exponent-field / mantissa-field '
                'classes (zero, subnormal, binade edges, infinities, NaN '
                'payloads; mantissas that carry on rounding to 4/10/23 bits, '
                'exact ties, all ones), array shapes with exponent spread 0, '
                '<= 255, exactly 255/256/257, up to 2045 binades and '
                'interleaved specials, in every precision x exponent-mode pair '
                'and through varintFloatEncodeAuto with requested errors at, '
                'next to and between the published bounds; exact oracle (bit '
                'comparison, or |d-x| <= bound*|x| evaluated without rounding '
                'in x87 extended precision), in the sanitised and the '
                'pinned-release build; plus a deterministic sweep of every '
                '(sign, exponent class, mantissa class) element alone, all '
                'together and in pairs straddling the 8-bit exponent-delta '
                'limit'),
    level_note=('trusts the harness decoder of the case bytes, x87 long double '
                '(64-bit significand: differences of nearby doubles and '
                'power-of-two scalings are exact; the product for an arbitrary '
                'requested error is corrected with fmal) and the compilers; '
                'the bound 2^-m is read from the published '
                'varintFloatPrecisionMaxRelativeError(), the sweep checks it '
                'against the 23/10/4-bit widths documented in the header; '
                'not exhaustive over 2^64 patterns or over array contents'),
    rule=('case = (precision, or in 3/8 of the cases EncodeAuto + requested '
          'error; exponent mode; output background fill; array descriptor); '
          'arrays are 1..64 explicit elements (optionally folded into a 256- '
          'or 4-binade window) or a bulk shape (one binade, spread <= 255, '
          'spread >= 256, specials interleaved, free mix; 1..64 elements, ~9% '
          'of them 65..2000, 8000 in the thorough tier) expanded from a seed '
          'with up to 8 explicit overrides; deliberate carry patterns are '
          'enabled in 1/4 of the arrays; an EncodeAuto result is held first '
          'to the guarantee of the precision it reports, then to the '
          'requested error; '
          'non-trivial = at least one normal value and (lossy precision or '
          'auto, or at least one special, or exponent spread >= 2); distinct '
          'by hash of (precision/auto, mode, requested error, all 8-byte '
          'patterns)'),
    quick=dict(configs=['asan', 'rel'], cases=5000000, maxlen=160),
    thorough=dict(configs=['asan', 'rel'], cases=12000000, maxlen=400,
                  fuzz_s=120, setmax=1 << 23),
    case_timeout=20,
    required_classes=(
        ['pm.%s.%s' % (p, m) for p in ('FULL', 'HIGH', 'MEDIUM', 'LOW')
         for m in ('INDEPENDENT', 'COMMON', 'DELTA')] +
        ['auto.mode.INDEPENDENT', 'auto.mode.COMMON', 'auto.mode.DELTA',
         'auto.sel.FULL', 'auto.sel.HIGH', 'auto.sel.MEDIUM', 'auto.sel.LOW',
         'auto.band.lt2^-52', 'auto.band.2^-52..2^-23',
         'auto.band.2^-23..2^-10', 'auto.band.2^-10..2^-4',
         'auto.band.ge2^-4', 'auto.req.near_threshold',
         'carry', 'carry.above_dbl_max', 'tie',
         'spread.255', 'spread.256', 'spread.gt255', 'spread.gt255.COMMON',
         'specials.mixed', 'specials.only', 'special.nan', 'special.inf',
         'special.zero', 'special.subnormal', 'len.1', 'len.65+',
         'shape.explicit', 'shape.binade', 'shape.spread<=255',
         'shape.spread>=256', 'shape.specials', 'shape.mix']),
    assumptions=COMMON_ASSUME + [
        'count >= 1; the output buffer has varintFloatMaxEncodedSize(count, '
        'precision) + 32 bytes (FULL precision for EncodeAuto); the size '
        'bound itself belongs to C03',
        'the decoder is given the encoder\'s count and an exact-size copy of '
        'the encoded bytes',
        '"special" is the header\'s list (NaN, infinity, denormal, zero), i.e. '
        'exponent field 0 or 2047; varintFloatIsSpecial is checked to agree',
        'a normal value whose m-bit rounding is 2^1024 may come back as the '
        'infinity of its sign (the statement\'s only escape); for EncodeAuto '
        'the escape uses the mantissa width of the reported selected '
        'precision',
        'x87 80-bit long double (LDBL_MANT_DIG >= 64, static assert)',
    ],
)
