from common import COMMON_ASSUME

PROP = dict(
    technique='property-based testing: bit-exact / relative-error oracle evaluated exactly in long double over class-structured doubles',
    harness=['c07_float.c'],
    level_text=('generated-input search over arrays of IEEE-754 doubles built '
                'from separately drawn sign / exponent-field / mantissa-field '
                'classes (zero, subnormal, binade edges, infinities, NaN '
                'payloads; mantissas that carry on rounding to 4/10/23 bits, '
                'exact ties, all ones; doubles that are exactly representable '
                'in a narrower format: k-bit significand for k = 3, 4, 5, 8 '
                '(bfloat16), 9, 10, 11 (binary16), 12, 21..25 (24 = binary32), '
                '32, 52, with and without the last kept bit set), array '
                'shapes with exponent spread 0, '
                '<= 255, exactly 255/256/257, up to 2045 binades and '
                'interleaved specials, each of them also as "every normal '
                'element fits k bits" and "all but one element fits k bits" '
                '(up to 2000 elements, exponents optionally folded into the '
                'binary16 / binary32 range), in every precision x '
                'exponent-mode pair '
                'and through varintFloatEncodeAuto with requested errors at, '
                'next to and between the published bounds and on both sides of '
                '2^-k and 2^-(k-1) of the array at hand; exact oracle (bit '
                'comparison, or |d-x| <= bound*|x| evaluated without rounding '
                'in x87 extended precision), in the sanitised and the '
                'pinned-release build; plus a deterministic sweep of every '
                '(sign, exponent class, mantissa class) element alone, all '
                'together and in pairs straddling the 8-bit exponent-delta '
                'limit, and of 8-element narrow-format arrays for every k of '
                'the table in every precision x mode and through EncodeAuto '
                'with requests around 2^-k'),
    level_note=('trusts the harness decoder of the case bytes, x87 long double '
                '(64-bit significand: differences of nearby doubles and '
                'power-of-two scalings are exact; the product for an arbitrary '
                'requested error is corrected with fmal) and the compilers; '
                'the bound 2^-m is read from the published '
                'varintFloatPrecisionMaxRelativeError(), the sweep checks it '
                'against the 23/10/4-bit widths documented in the header; '
                'not exhaustive over 2^64 patterns or over array contents'),
    rule=('case = (precision, or in 3/8 of the cases EncodeAuto + requested '
          'error; exponent mode; output background fill; array descriptor); '
          'arrays are 1..64 explicit elements (optionally folded into a 256- '
          'or 4-binade window) or a bulk shape (one binade, spread <= 255, '
          'spread >= 256, specials interleaved, free mix; 1..64 elements, ~9% '
          'of them 65..2000, 8000 in the thorough tier) expanded from a seed '
          'with up to 8 explicit overrides; deliberate carry patterns are '
          'enabled in 1/4 of the arrays; 1/8 of the explicit elements (and of '
          'the elements of half of the bulk arrays) are cut to a k-bit '
          'significand, in half of the draws with the lowest kept bit forced '
          'to 1; 1/8 of the arrays are post-processed so that all (or all but '
          'one) of their normal elements fit k bits (lowest kept bit set in '
          'half / all / one / as drawn, exponent window kept / binary16 / '
          'binary32 / around one); 1/32 + 3/16 of the EncodeAuto requests are '
          'placed relative to 2^-k of the decoded array; '
          'an EncodeAuto result is held first '
          'to the guarantee of the precision it reports, then to the '
          'requested error; '
          'non-trivial = at least one normal value and (lossy precision or '
          'auto, or at least one special, or exponent spread >= 2); distinct '
          'by hash of (precision/auto, mode, requested error, all 8-byte '
          'patterns)'),
    quick=dict(configs=['asan', 'rel'], cases=5000000, maxlen=160),
    thorough=dict(configs=['asan', 'rel'], cases=12000000, maxlen=400,
                  fuzz_s=120, setmax=1 << 23),
    case_timeout=20,
    required_classes=(
        ['pm.%s.%s' % (p, m) for p in ('FULL', 'HIGH', 'MEDIUM', 'LOW')
         for m in ('INDEPENDENT', 'COMMON', 'DELTA')] +
        ['auto.mode.INDEPENDENT', 'auto.mode.COMMON', 'auto.mode.DELTA',
         'auto.sel.FULL', 'auto.sel.HIGH', 'auto.sel.MEDIUM', 'auto.sel.LOW',
         'auto.band.lt2^-52', 'auto.band.2^-52..2^-23',
         'auto.band.2^-23..2^-10', 'auto.band.2^-10..2^-4',
         'auto.band.ge2^-4', 'auto.req.near_threshold',
         'carry', 'carry.above_dbl_max', 'tie',
         'spread.255', 'spread.256', 'spread.gt255', 'spread.gt255.COMMON',
         'specials.mixed', 'specials.only', 'special.nan', 'special.inf',
         'special.zero', 'special.subnormal', 'len.1', 'len.65+',
         'shape.explicit', 'shape.binade', 'shape.spread<=255',
         'shape.spread>=256', 'shape.specials', 'shape.mix'] +
        # doubles exactly representable in a narrower format (k-bit significand)
        ['%s.k%d' % (c, k)
         for c in ('elem.narrow', 'narrow.all', 'narrow.allbut1')
         for k in (3, 4, 9, 10, 11, 21, 22, 23, 24, 52)] +
        ['narrow.all.%s' % x
         for x in ('FULL', 'HIGH', 'MEDIUM', 'LOW', 'auto', 'INDEPENDENT',
                   'COMMON', 'DELTA', 'n2-8', 'n9-64', 'n65+')] +
        ['narrow.allbut1.%s' % x
         for x in ('FULL', 'HIGH', 'MEDIUM', 'LOW', 'auto', 'n3-8', 'n9-64',
                   'n65+')] +
        ['elem.narrow.in_bulk', 'shape.narrow.all', 'shape.narrow.allbut1',
         'shape.narrow.explicit', 'shape.narrow.binade',
         'shape.narrow.spread<=255', 'shape.narrow.specials',
         'shape.narrow.mix', 'shape.narrow.win.half',
         'shape.narrow.win.float', 'auto.req.array_relative',
         'auto.narrow.req_lt_2^-k', 'auto.narrow.req_in_2^-k..2^-(k-1)',
         'auto.narrow.req_ge_2^-(k-1)', 'auto.narrow.multi.req_lt_2^-k',
         'auto.narrow.multi.req_ge_2^-k']),
    assumptions=COMMON_ASSUME + [
        'count >= 1; the output buffer has varintFloatMaxEncodedSize(count, '
        'precision) + 32 bytes (FULL precision for EncodeAuto); the size '
        'bound itself belongs to C03',
        'the decoder is given the encoder\'s count and an exact-size copy of '
        'the encoded bytes',
        '"special" is the header\'s list (NaN, infinity, denormal, zero), i.e. '
        'exponent field 0 or 2047; varintFloatIsSpecial is checked to agree',
        'a normal value whose m-bit rounding is 2^1024 may come back as the '
        'infinity of its sign (the statement\'s only escape); for EncodeAuto '
        'the escape uses the mantissa width of the reported selected '
        'precision',
        'x87 80-bit long double (LDBL_MANT_DIG >= 64, static assert)',
    ],
)
