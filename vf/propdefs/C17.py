from common import COMMON_ASSUME

PROP = dict(
    technique='property-based testing of generated thread programs under ThreadSanitizer plus comparison of every concurrent result with the sequentially computed one',
    harness=['c17_threads.c', 'vf_arr.c'],
    libs=['-pthread'],
    confirm=1,             # schedule dependent: one reproduction in three
    replay_config='tsan',
    case_timeout=240,
    level_text=('generated-input search over thread/operation assignments: '
                '2..16 pthreads released from a barrier run (1) generated lists '
                'of codec calls on a shared read-only pool (arrays, doubles, '
                'pre-encoded buffers, one prebuilt dictionary) and (2) a hot '
                'loop in which every thread calls the same codec entry point '
                'back to back on one of four equal-length inputs (shared or a '
                'thread-private copy), all with thread-private outputs; the '
                'operation table was audited against the headers and the '
                'exported symbols of the library: every public scalar entry '
                'point (put/get, fixed-width and quick-macro forms, 32-bit '
                'and 128-bit forms, reversed split forms, in-place adds as '
                'histories on a private slot, single-value Elias coders with '
                'a private bit writer, varintDeltaPut/Get and zig-zag, '
                'dimension headers and a private matrix history, packed-array '
                'and bitstream histories) and the pure helpers of the array '
                'codecs are phase-1 operations and hot-loop kinds; fully '
                'instrumented with ThreadSanitizer (any report is a '
                'violation), and every result of every iteration (returned '
                'length, metadata fields, output bytes) is compared with a '
                'sequential run; repeated uninstrumented at full speed with '
                '~10x the iterations for result comparison under real '
                'contention'),
    level_note=('interleavings are not enumerated: ThreadSanitizer\'s '
                'happens-before detection makes a race on an exercised shared '
                'location visible largely independent of timing, races on '
                'paths the generator does not reach stay invisible; state '
                'built from atomics (invisible to ThreadSanitizer) is only '
                'caught when a torn or stale read actually happens in one of '
                'the ~10^8 compared calls per run, so a window of a few '
                'instructions that additionally needs a rare input '
                'relationship can be missed; trusts ThreadSanitizer, glibc '
                'malloc/qsort being thread-safe, and the harness comparison; '
                'not called: varintBitmap* (a mutable object, not one of the '
                'codecs the statement lists; C08/C18 own it), the *Bytes '
                'wrappers of the packed template, and the header-less '
                'varintPacked12* instantiation exported by varintDimension.c '
                '(same template as the harness instantiation)'),
    rule=('case = (2..16 threads, repeat count, minimum lengths per pool slot '
          '(none/64/256/1024), hot-loop entry point + parameter + group + '
          'iteration budget, per-thread role (group member 0..3, shared or '
          'private copy), three pool arrays from the shared array generator, '
          'per thread 1..8 operations (one of 33 codecs / scalar operations, '
          'input selector), optionally a large-array phase: one pool array '
          'stretched to 10001..65537 elements in one of four shapes, two '
          'of 14 array operations run by 2..4 threads on that shared '
          'input); non-trivial = '
          'at least two threads run the same codec on the same shared input '
          'concurrently (operation lists or hot loop); distinct by hash of '
          '(thread count, repeats, pool contents, hot-loop parameters, roles, '
          'assignment)'),
    quick=dict(configs=['tsan', 'rel'], cases=8800, maxlen=400, workers=16,
               shares={'tsan': 9, 'rel': 7}),
    thorough=dict(configs=['tsan', 'rel'], cases=36000, maxlen=400, workers=16,
                  shares={'tsan': 9, 'rel': 7}, fuzz_s=0),
    required_classes=['concurrent.for', 'concurrent.pfor', 'concurrent.dict',
                      'concurrent.dict.shared', 'concurrent.adaptive.auto',
                      'concurrent.decode.shared', 'concurrent.float',
                      'concurrent.bp128.64', 'concurrent.scalar.tagged',
                      'op.packed12', 'op.bitstream', 'threads.9-16',
                      'pool.len>=64', 'pool.len>=256', 'pool.len>=1024',
                      'hot.len>=64', 'hot.len>=256', 'hot.len>=1024',
                      'hot.same-input.shared', 'hot.same-input.private',
                      'hot.other-input', 'hot.pattern',
                      'hot.for.encode', 'hot.for.analyze', 'hot.pfor.encode',
                      'hot.pfor.threshold', 'hot.dict.encode', 'hot.rle.encode',
                      'hot.elias.encode', 'hot.bp128.encode',
                      'hot.float.encode', 'hot.adaptive.encode',
                      'hot.adaptive.analyze', 'hot.delta.encode',
                      'hot.group.encode', 'hot.decode',
                      # scalar entry points (audit of the public scalar API)
                      'concurrent.scalar.tagged.add',
                      'concurrent.scalar.external.add',
                      'concurrent.scalar.fixed', 'concurrent.scalar.chained32',
                      'concurrent.scalar.split.reversed',
                      'concurrent.elias.single', 'concurrent.delta.scalar',
                      'concurrent.dimension.header',
                      'concurrent.dimension.matrix',
                      'concurrent.packed12.positional',
                      'concurrent.array.helpers',
                      'hot.scalar.tagged.add', 'hot.scalar.external.add',
                      'hot.scalar.fixed', 'hot.scalar.chained32',
                      'hot.scalar.split.reversed', 'hot.elias.single',
                      'hot.delta.scalar', 'hot.dimension.header',
                      'hot.dimension.matrix', 'hot.packed12.positional',
                      'hot.array.helpers', 'hot.op.scalar.tagged',
                      'hot.op.scalar.external', 'hot.op.scalar.chained',
                      'hot.op.scalar.split', 'hot.op.packed12',
                      'hot.op.bitstream', 'big.on', 'big.adaptive.auto',
                      'big.adaptive.forced', 'big.pfor', 'big.dict',
                      'big.len<=16384', 'big.len>32768'],
    assumptions=COMMON_ASSUME + [
        'the harness owns thread creation and the assignment of operations to '
        'threads; the operating system owns the schedule',
        'outputs, varint slots, bit writers, matrices, packed arrays and '
        'bitstreams are thread-private; only the '
        'inputs (arrays, encoded buffers, the prebuilt dictionary) are shared '
        'and nothing writes to them after the threads start',
        'metadata structs handed to the library are zero-initialised by the '
        'harness so that fields a codec leaves unwritten hash identically',
        'libc allocation, qsort and memcpy are thread-safe',
        'in-place adds follow the documented caller protocol (return 0: '
        'nothing changed; no-grow return above the slot width: nothing '
        'changed; otherwise the value now occupies the returned width); '
        'tagged fixed-width puts use widths that can represent the value; '
        'varintChainedGetVarint32 is only called on multi-byte encodings; '
        'Elias single-value coders get values >= 1; matrices have >= 1 '
        'column; packed SetIncr gets a non-negative increment that stays in '
        'range',
        'a result mismatch is a fact about one schedule: after the first '
        'violation of a process a shrink candidate counts only if it fails '
        'twice in three runs (at most 120 candidates are executed), and the '
        'first case of a process (a replay) is run up to 10 times; neither '
        'can produce a violation that did not occur',
        'barrier waits are bounded (20 s): a case whose threads cannot all be '
        'started or do not all arrive is discarded, not judged',
    ],
)
