from common import COMMON_ASSUME

PROP = dict(
    harness=['c17_threads.c', 'vf_arr.c'],
    libs=['-pthread'],
    confirm=1,             # schedule dependent: one reproduction in three
    replay_config='tsan',
    case_timeout=60,
    level_text=('generated-input search over thread/operation assignments: '
                '2..16 pthreads released from a barrier run generated lists of '
                'codec calls on a shared read-only pool (arrays, doubles, '
                'pre-encoded buffers, one prebuilt dictionary) with '
                'thread-private outputs, fully instrumented with '
                'ThreadSanitizer (any report is a violation), and every '
                'thread\'s outputs are compared with a sequential run; repeated '
                'uninstrumented at full speed for result comparison under real '
                'contention'),
    level_note=('interleavings are not enumerated: ThreadSanitizer\'s '
                'happens-before detection makes a race on an exercised shared '
                'location visible largely independent of timing, races on '
                'paths the generator does not reach stay invisible; trusts '
                'ThreadSanitizer, glibc malloc/qsort being thread-safe, and the '
                'harness hash of outputs'),
    rule=('case = (2..16 threads, repeat count, three pool arrays from the '
          'shared array generator, per thread 1..8 operations (codec, input '
          'selector)); non-trivial = at least two threads run the same codec '
          'on the same shared pool array concurrently; distinct by hash of '
          '(thread count, repeats, pool contents, assignment)'),
    quick=dict(configs=['tsan', 'rel'], cases=52000, maxlen=200, workers=12,
               shares={'tsan': 9, 'rel': 3}),
    thorough=dict(configs=['tsan', 'rel'], cases=60000, maxlen=200, workers=12,
                  shares={'tsan': 9, 'rel': 3}, fuzz_s=0),
    required_classes=['concurrent.for', 'concurrent.pfor', 'concurrent.dict',
                      'concurrent.dict.shared', 'concurrent.adaptive.auto',
                      'concurrent.decode.shared', 'concurrent.float',
                      'concurrent.bp128.64', 'concurrent.scalar.tagged',
                      'op.packed12', 'op.bitstream', 'threads.9-16'],
    assumptions=COMMON_ASSUME + [
        'the harness owns thread creation and the assignment of operations to '
        'threads; the operating system owns the schedule',
        'outputs, packed arrays and bitstreams are thread-private; only the '
        'inputs (arrays, encoded buffers, the prebuilt dictionary) are shared '
        'and nothing writes to them after the threads start',
        'metadata structs handed to the library are zero-initialised by the '
        'harness so that fields a codec leaves unwritten hash identically',
        'libc allocation, qsort and memcpy are thread-safe',
    ],
)
