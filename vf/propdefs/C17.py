from common import COMMON_ASSUME

PROP = dict(
    harness=['c17_threads.c', 'vf_arr.c'],
    libs=['-pthread'],
    confirm=1,             # schedule dependent: one reproduction in three
    replay_config='tsan',
    case_timeout=60,
    level_text=('generated-input search over thread/operation assignments: '
                '2..16 pthreads released from a barrier run (1) generated lists '
                'of codec calls on a shared read-only pool (arrays, doubles, '
                'pre-encoded buffers, one prebuilt dictionary) and (2) a hot '
                'loop in which every thread calls the same codec entry point '
                'back to back on one of four equal-length inputs (shared or a '
                'thread-private copy), all with thread-private outputs; fully '
                'instrumented with ThreadSanitizer (any report is a '
                'violation), and every result of every iteration (returned '
                'length, metadata fields, output bytes) is compared with a '
                'sequential run; repeated uninstrumented at full speed with '
                '~10x the iterations for result comparison under real '
                'contention'),
    level_note=('interleavings are not enumerated: ThreadSanitizer\'s '
                'happens-before detection makes a race on an exercised shared '
                'location visible largely independent of timing, races on '
                'paths the generator does not reach stay invisible; state '
                'built from atomics (invisible to ThreadSanitizer) is only '
                'caught when a torn or stale read actually happens in one of '
                'the ~10^8 compared calls per run, so a window of a few '
                'instructions that additionally needs a rare input '
                'relationship can be missed; trusts ThreadSanitizer, glibc '
                'malloc/qsort being thread-safe, and the harness comparison'),
    rule=('case = (2..16 threads, repeat count, minimum lengths per pool slot '
          '(none/64/256/1024), hot-loop entry point + parameter + group + '
          'iteration budget, per-thread role (group member 0..3, shared or '
          'private copy), three pool arrays from the shared array generator, '
          'per thread 1..8 operations (codec, input selector)); non-trivial = '
          'at least two threads run the same codec on the same shared input '
          'concurrently (operation lists or hot loop); distinct by hash of '
          '(thread count, repeats, pool contents, hot-loop parameters, roles, '
          'assignment)'),
    quick=dict(configs=['tsan', 'rel'], cases=7200, maxlen=400, workers=16,
               shares={'tsan': 9, 'rel': 7}),
    thorough=dict(configs=['tsan', 'rel'], cases=60000, maxlen=400, workers=16,
                  shares={'tsan': 9, 'rel': 7}, fuzz_s=0),
    required_classes=['concurrent.for', 'concurrent.pfor', 'concurrent.dict',
                      'concurrent.dict.shared', 'concurrent.adaptive.auto',
                      'concurrent.decode.shared', 'concurrent.float',
                      'concurrent.bp128.64', 'concurrent.scalar.tagged',
                      'op.packed12', 'op.bitstream', 'threads.9-16',
                      'pool.len>=64', 'pool.len>=256', 'pool.len>=1024',
                      'hot.len>=64', 'hot.len>=256', 'hot.len>=1024',
                      'hot.same-input.shared', 'hot.same-input.private',
                      'hot.other-input', 'hot.pattern',
                      'hot.for.encode', 'hot.for.analyze', 'hot.pfor.encode',
                      'hot.pfor.threshold', 'hot.dict.encode', 'hot.rle.encode',
                      'hot.elias.encode', 'hot.bp128.encode',
                      'hot.float.encode', 'hot.adaptive.encode',
                      'hot.adaptive.analyze', 'hot.delta.encode',
                      'hot.group.encode', 'hot.decode'],
    assumptions=COMMON_ASSUME + [
        'the harness owns thread creation and the assignment of operations to '
        'threads; the operating system owns the schedule',
        'outputs, packed arrays and bitstreams are thread-private; only the '
        'inputs (arrays, encoded buffers, the prebuilt dictionary) are shared '
        'and nothing writes to them after the threads start',
        'metadata structs handed to the library are zero-initialised by the '
        'harness so that fields a codec leaves unwritten hash identically',
        'libc allocation, qsort and memcpy are thread-safe',
        'a result mismatch is a fact about one schedule: after the first '
        'violation of a process a shrink candidate counts only if it fails '
        'twice in three runs (at most 120 candidates are executed), and the '
        'first case of a process (a replay) is run up to 10 times; neither '
        'can produce a violation that did not occur',
        'barrier waits are bounded (20 s): a case whose threads cannot all be '
        'started or do not all arrive is discarded, not judged',
    ],
)
