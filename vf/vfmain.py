"""Orchestration for the property checks: build, regression replay, rapidcheck
campaign, libFuzzer campaign, minimisation, known findings, evidence."""
import argparse
import concurrent.futures as cf
import glob
import hashlib
import json
import os
import re
import shutil
import subprocess
import sys
import threading
import time

import props as P

VERIF = os.path.dirname(os.path.dirname(os.path.abspath(__file__)))
HARNESS = os.path.join(VERIF, 'harness')
BUILD = os.environ.get('VF_BUILD') or os.path.join(VERIF, 'build')
NCPU = os.cpu_count() or 4


def repo_dir():
    return os.environ.get('VERIF_REPO', '/repo')


def log(msg):
    print(msg, flush=True)


# --------------------------------------------------------------------- build
LIB_EXCLUDE = re.compile(r'(Test\.c|varintCompare\.c)$')


def lib_sources():
    src = os.path.join(repo_dir(), 'src')
    return sorted(f for f in glob.glob(os.path.join(src, '*.c'))
                  if not LIB_EXCLUDE.search(f))


def have_cpu_flags(flags):
    try:
        txt = open('/proc/cpuinfo').read()
    except OSError:
        return False
    m = re.search(r'^flags\s*:\s*(.*)$', txt, re.M)
    have = set(m.group(1).split()) if m else set()
    return all(f in have for f in flags)


CONFIGS = {
    # name: (cc, cxx, cflags, ldflags)
    'asan': dict(cc='clang', cxx='clang++',
                 cflags=['-O1', '-g', '-fno-omit-frame-pointer',
                         '-fsanitize=address,undefined',
                         '-fsanitize-recover=undefined',
                         '-fno-sanitize=alignment'],
                 ldflags=['-fsanitize=address,undefined']),
    'rel': dict(cc='gcc', cxx='g++',
                cflags=['-O2', '-g', '-DNDEBUG', '-mtune=native'],
                ldflags=[]),
    'dbg': dict(cc='gcc', cxx='g++', cflags=['-O0', '-g'], ldflags=[]),
    'simd': dict(cc='clang', cxx='clang++',
                 cflags=['-O2', '-g', '-mavx2', '-mavx512f', '-mavx512vl',
                         '-mf16c', '-fsanitize=address'],
                 ldflags=['-fsanitize=address'],
                 cpu=['avx2', 'avx512f', 'avx512vl', 'f16c']),
    # everything the host CPU offers (BMI2, AVX2, ...): code paths selected by
    # __BMI2__/__AVX2__ style macros are dead in the other configurations
    'native': dict(cc='clang', cxx='clang++',
                   cflags=['-O2', '-g', '-march=native', '-fsanitize=address',
                           '-fno-omit-frame-pointer'],
                   ldflags=['-fsanitize=address']),
    'msan': dict(cc='clang', cxx=None,
                 cflags=['-O1', '-g', '-fno-omit-frame-pointer',
                         '-fsanitize=memory',
                         '-fsanitize-memory-track-origins'],
                 ldflags=['-fsanitize=memory']),
    'tsan': dict(cc='clang', cxx='clang++',
                 cflags=['-O1', '-g', '-fsanitize=thread'],
                 ldflags=['-fsanitize=thread', '-pthread']),
    'oom': dict(cc='clang', cxx='clang++',
                cflags=['-O1', '-g', '-fno-omit-frame-pointer',
                        '-fsanitize=address', '-DVF_OOM=1'],
                ldflags=['-fsanitize=address'],
                lib_extra=['-include', os.path.join(HARNESS, 'vf_alloc.h')]),
    'fuzz': dict(cc='clang', cxx='clang++',
                 cflags=['-O1', '-g', '-fno-omit-frame-pointer',
                         '-fsanitize=fuzzer-no-link,address'],
                 ldflags=['-fsanitize=fuzzer,address']),
}

WARN = ['-Wall', '-Wextra', '-Wno-unused-parameter', '-Wno-unused-function',
        '-Wno-sign-compare', '-Wno-missing-field-initializers',
        '-Wno-unused-variable', '-Wno-unused-but-set-variable']


def run(cmd, **kw):
    return subprocess.run(cmd, stdout=subprocess.PIPE, stderr=subprocess.STDOUT,
                          text=True, **kw)


def ensure_drv_rc():
    """drv_rc.o contains no repo code; built once (setup) and reused."""
    out = os.path.join(BUILD, 'common')
    os.makedirs(out, exist_ok=True)
    obj = os.path.join(out, 'drv_rc.o')
    src = os.path.join(HARNESS, 'drv_rc.cpp')
    hdr = os.path.join(HARNESS, 'vf.h')
    if (not os.path.exists(obj)
            or os.path.getmtime(obj) < os.path.getmtime(src)
            or os.path.getmtime(obj) < os.path.getmtime(hdr)):
        tmp = obj + '.%d.%d.tmp' % (os.getpid(), threading.get_ident())
        r = run(['clang++', '-std=gnu++17', '-O2', '-I', HARNESS, '-c', src,
                 '-o', tmp])
        if r.returncode != 0:
            raise RuntimeError('drv_rc build failed:\n' + r.stdout)
        os.replace(tmp, obj)
    return obj


def build(prop, config, drivers):
    """Compile /repo/src/*.c + harness for one (property, config).
    Returns dict driver -> binary path."""
    spec = P.PROPS[prop]
    cfg = CONFIGS[config]
    out = os.path.join(BUILD, prop, config)
    shutil.rmtree(out, ignore_errors=True)
    os.makedirs(out)
    src = os.path.join(repo_dir(), 'src')
    inc = ['-I', src, '-I', HARNESS, '-I', out]
    defs = ['-DVF_CONFIG="%s"' % config] + spec.get('defs', [])
    jobs = []
    objs = []

    # generated sources (e.g. C09 instantiation table)
    for gen in spec.get('generate', []):
        r = run([sys.executable, os.path.join(HARNESS, gen[0]), out] + gen[1:])
        if r.returncode != 0:
            raise RuntimeError('generator %s failed:\n%s' % (gen[0], r.stdout))

    lib = lib_sources() if spec.get('lib', True) else []
    lib_extra = list(cfg.get('lib_extra', []))
    if config == 'fuzz' and spec.get('fuzz_oom'):
        lib_extra = CONFIGS['oom']['lib_extra'] + ['-DVF_OOM=1']
        defs = defs + ['-DVF_OOM=1']
    for f in lib:
        o = os.path.join(out, 'lib_' + os.path.basename(f)[:-2] + '.o')
        objs.append(o)
        jobs.append([cfg['cc'], '-std=gnu11'] + cfg['cflags'] +
                    lib_extra + ['-w'] + inc +
                    ['-c', f, '-o', o])
    hfiles = list(spec['harness']) + ['vf_core.c']
    if config == 'oom' or spec.get('alloc'):
        hfiles.append('vf_alloc.c')
    for f in hfiles:
        path = f if os.path.isabs(f) else os.path.join(HARNESS, f)
        if f.startswith('gen:'):
            path = os.path.join(out, f[4:])
        o = os.path.join(out, 'h_' + os.path.basename(path)[:-2] + '.o')
        objs.append(o)
        jobs.append([cfg['cc'], '-std=gnu11'] + cfg['cflags'] + WARN + inc +
                    defs + ['-c', path, '-o', o])
    drvobjs = {}
    for d in drivers:
        if d == 'rc':
            continue
        f = os.path.join(HARNESS, 'drv_%s.c' % d)
        o = os.path.join(out, 'drv_%s.o' % d)
        drvobjs[d] = o
        extra = []
        jobs.append([cfg['cc'], '-std=gnu11'] + cfg['cflags'] + WARN + inc +
                    defs + extra + ['-c', f, '-o', o])

    def cc(cmd):
        r = run(cmd)
        return (cmd, r.returncode, r.stdout)

    with cf.ThreadPoolExecutor(max_workers=NCPU) as ex:
        for cmd, rc, outp in ex.map(cc, jobs):
            if rc != 0:
                raise RuntimeError('compile failed: %s\n%s' %
                                   (' '.join(cmd), outp))
    bins = {}
    libs = ['-lm'] + spec.get('libs', [])
    for d in drivers:
        exe = os.path.join(out, d)
        if d == 'rc':
            cmd = [cfg['cxx'], '-o', exe, ensure_drv_rc()] + objs + \
                cfg['ldflags'] + ['-lrapidcheck'] + libs
        elif d == 'fuzz':
            cmd = [cfg['cc'], '-o', exe, drvobjs[d]] + objs + cfg['ldflags'] + libs
        else:
            ld = cfg['ldflags']
            if config == 'fuzz':
                ld = ['-fsanitize=fuzzer-no-link,address']
            cmd = [cfg['cc'], '-o', exe, drvobjs[d]] + objs + ld + libs
        r = run(cmd)
        if r.returncode != 0:
            raise RuntimeError('link failed: %s\n%s' % (' '.join(cmd), r.stdout))
        bins[d] = exe
    return bins


# ----------------------------------------------------------------- execution
def base_env(prop, tier, known_ids):
    env = dict(os.environ)
    env['VF_TIER'] = tier
    env['VF_KNOWN'] = ','.join(known_ids)
    env['ASAN_OPTIONS'] = ('detect_leaks=0:abort_on_error=0:'
                           'allocator_may_return_null=1:'
                           'detect_stack_use_after_return=0:'
                           'malloc_context_size=12:'
                           'max_allocation_size_mb=4096')
    env['UBSAN_OPTIONS'] = 'print_stacktrace=0:halt_on_error=0'
    env['MSAN_OPTIONS'] = 'halt_on_error=1:exit_code=86'
    env['TSAN_OPTIONS'] = 'halt_on_error=1:exitcode=87:report_signal_unsafe=0'
    for k in ('VF_STATS', 'VF_FAIL', 'VF_CRASH', 'RC_PARAMS'):
        env.pop(k, None)
    if P.PROPS[prop].get('case_timeout'):
        env['VF_CASE_TIMEOUT'] = str(P.PROPS[prop]['case_timeout'])
    for k, v in P.PROPS[prop].get('env', {}).items():
        env[k] = v
    return env


def derive_seed(seed, i, salt):
    h = hashlib.sha256(('%d/%d/%s' % (seed, i, salt)).encode()).digest()
    return int.from_bytes(h[:4], 'little') % 2000000000 + 1


class Candidate:
    def __init__(self, path, config, why, engine):
        self.path, self.config, self.why, self.engine = path, config, why, engine


def replay_once(binpath, env, case, timeout=120):
    """returns (failed?, output)"""
    e = dict(env)
    e.pop('VF_STATS', None)
    e['VF_NO_SIGNALS'] = '1'
    try:
        r = subprocess.run([binpath, case], stdout=subprocess.PIPE,
                           stderr=subprocess.STDOUT, env=e, timeout=timeout)
        out = r.stdout.decode('utf-8', 'replace')
        if r.returncode == -14:
            out += '\nTIMEOUT (per-case alarm)'
        return (r.returncode != 0, out)
    except subprocess.TimeoutExpired as ex:
        return (True, 'TIMEOUT after %ds' % timeout)


def failure_site(out):
    m = re.search(r'^FAIL \S+ site=(\S+) kind=(\S+)', out, re.M)
    if m:
        return m.group(1) + '/' + m.group(2)
    if 'AddressSanitizer' in out:
        m = re.search(r'AddressSanitizer: (\S+)', out)
        f = re.search(r'^\s+#\d+ \S+ in (varint\w+)', out, re.M)
        return 'asan/' + (m.group(1) if m else '?') + ('@' + f.group(1) if f else '')
    if 'MemorySanitizer' in out:
        return 'msan'
    if 'ThreadSanitizer' in out:
        return 'tsan'
    if 'Assertion' in out:
        return 'assert'
    if 'TIMEOUT' in out:
        return 'timeout'
    return 'crash'


def minimise(binpath, env, case_path, want_site, budget=250, timeout=60):
    """record-agnostic ddmin over bytes using the replay binary as the test."""
    data = open(case_path, 'rb').read()
    tmp = case_path + '.min'
    calls = [0]

    def fails(b):
        if calls[0] >= budget:
            return False
        calls[0] += 1
        with open(tmp, 'wb') as f:
            f.write(b)
        bad, out = replay_once(binpath, env, tmp, timeout)
        return bad and failure_site(out).split('/')[0] == want_site.split('/')[0]

    # 1. shortest failing prefix (binary search is unsound in general; linear
    #    over a few cut points)
    n = len(data)
    for cut in sorted(set([n // 8, n // 4, n // 2, (3 * n) // 4])):
        if cut < n and fails(data[:cut]):
            data = data[:cut]
            break
    # 2. chunk removal
    chunk = max(1, len(data) // 2)
    while chunk >= 1 and calls[0] < budget:
        i = 0
        progressed = False
        while i < len(data) and calls[0] < budget:
            cand = data[:i] + data[i + chunk:]
            if len(cand) < len(data) and fails(cand):
                data = cand
                progressed = True
            else:
                i += chunk
        if chunk == 1 and not progressed:
            break
        chunk = chunk // 2 if chunk > 1 else (1 if progressed else 0)
        if chunk == 0:
            break
    # 3. zero bytes
    for i in range(len(data)):
        if calls[0] >= budget:
            break
        if data[i] != 0:
            cand = data[:i] + b'\0' + data[i + 1:]
            if fails(cand):
                data = cand
    with open(tmp, 'wb') as f:
        f.write(data)
    return tmp


def run_workers(cmds):
    """cmds: list of (argv, env, logpath, timeout). Runs all in parallel (the
    caller sizes the list to the machine). Returns list of return codes
    (None = timeout)."""
    procs = []
    for argv, env, logpath, timeout in cmds:
        lf = open(logpath, 'wb')
        p = subprocess.Popen(argv, stdout=lf, stderr=subprocess.STDOUT, env=env)
        procs.append((p, lf, timeout, time.time()))
    rcs = []
    for p, lf, timeout, t0 in procs:
        left = max(1, timeout - (time.time() - t0))
        try:
            rcs.append(p.wait(timeout=left))
        except subprocess.TimeoutExpired:
            p.kill()
            p.wait()
            rcs.append(None)
        lf.close()
    return rcs


def union_count(files):
    """distinct 64-bit hashes over the per-worker dumps"""
    files = [f for f in files if os.path.exists(f) and os.path.getsize(f) > 0]
    if not files:
        return 0
    tool = os.path.join(BUILD, 'common', 'vf_union')
    src = os.path.join(HARNESS, 'vf_union.c')
    if not os.path.exists(tool) or os.path.getmtime(tool) < os.path.getmtime(src):
        os.makedirs(os.path.dirname(tool), exist_ok=True)
        tmp = tool + '.%d.tmp' % os.getpid()
        r = run(['gcc', '-O2', '-o', tmp, src])
        if r.returncode != 0:
            raise RuntimeError('vf_union build failed\n' + r.stdout)
        os.replace(tmp, tool)
    r = run([tool] + files)
    return int(r.stdout.strip().split()[0])


# ------------------------------------------------------------ known findings
def load_known(prop):
    path = os.path.join(VERIF, 'known_findings.json')
    if not os.path.exists(path):
        return []
    data = json.load(open(path))
    return [f for f in data.get('findings', []) if f.get('property') == prop]


# -------------------------------------------------------------------- main
def main(argv):
    ap = argparse.ArgumentParser()
    ap.add_argument('prop')
    ap.add_argument('--tier', default=os.environ.get('VERIF_TIER', 'quick'))
    ap.add_argument('--replay')
    ap.add_argument('--seed', type=int,
                    default=int(os.environ.get('VERIF_SEED', '1') or 1))
    ap.add_argument('--configs', help='comma list overriding the tier configs')
    ap.add_argument('--cases', type=float, help='scale factor for case counts')
    ap.add_argument('--no-fuzz', action='store_true')
    ap.add_argument('--keep-going', action='store_true',
                    help='report every failing worker, not only the first')
    args = ap.parse_args(argv)
    prop = args.prop
    if prop not in P.PROPS:
        log('unknown property %s' % prop)
        return 2
    tier = 'thorough' if args.tier == 'thorough' else 'quick'
    spec = P.PROPS[prop]
    t0 = time.time()
    os.makedirs(BUILD, exist_ok=True)

    known = load_known(prop)
    known_ids = [k['id'] for k in known if k.get('status') == 'known']
    env0 = base_env(prop, tier, known_ids)

    # ------------------------------------------------------------- replay
    if args.replay:
        cfgname = (args.configs or spec.get('replay_config', 'asan')).split(',')[0]
        bins = build(prop, cfgname, ['replay'])
        env = dict(env0)
        env['VF_KNOWN'] = ''
        if args.replay.endswith('.sweep'):
            # a deterministic-sweep failure: the sweep itself is the replay
            m = re.search(r'\.(\w+)\.sweep$', args.replay)
            if m and m.group(1) in CONFIGS and m.group(1) != cfgname:
                cfgname = m.group(1)
                bins = build(prop, cfgname, ['replay'])
            r = subprocess.run([bins['replay'], '--sweep'], env=env,
                               stdout=subprocess.PIPE, stderr=subprocess.STDOUT)
            bad, out = r.returncode != 0, r.stdout.decode('utf-8', 'replace')
        else:
            bad, out = replay_once(bins['replay'], env, args.replay)
        sys.stdout.write(out)
        if bad:
            log('VIOLATION property=%s replay=%s' % (prop, args.replay))
            return 1
        return 0

    tspec = spec[tier]
    configs = args.configs.split(',') if args.configs else list(tspec['configs'])
    skipped_configs = []
    for c in list(configs):
        need = CONFIGS[c].get('cpu')
        if need and not have_cpu_flags(need):
            configs.remove(c)
            skipped_configs.append(c)
    scale = args.cases or float(os.environ.get('VF_SCALE', '1') or 1)

    # -------------------------------------------------------------- build
    work = os.path.join(BUILD, prop, 'run')
    tb = time.time()
    bins = {}
    use_fuzz = (tier == 'thorough' and tspec.get('fuzz_s', 0) > 0
                and not args.no_fuzz)
    with cf.ThreadPoolExecutor(max_workers=8) as ex:
        futs = {}
        for c in configs:
            drivers = ['replay'] if CONFIGS[c]['cxx'] is None else ['rc', 'replay']
            futs[c] = ex.submit(build, prop, c, drivers)
        if use_fuzz:
            futs['fuzz'] = ex.submit(build, prop, 'fuzz', ['fuzz', 'replay'])
        for c, f in futs.items():
            bins[c] = f.result()
    shutil.rmtree(work, ignore_errors=True)
    os.makedirs(work)
    build_s = time.time() - tb
    log('[%s] built %s in %.1fs' % (prop, ','.join(bins), build_s))

    candidates = []
    infra = []      # workers that died without leaving a replayable case
    statfiles = []
    inconclusive = []
    ubsan = set()
    engines = {}

    # ----------------------------------------------- confirm + minimise
    violations = []
    seen_sites = set()
    done_cands = set()
    fdir = os.environ.get('VF_FAILDIR') or os.path.join(VERIF, 'failures')

    def process_candidates():
        """confirm (fresh process), minimise crash-type candidates, triple
        replay; fills `violations`. Called after every tier so that only a
        *confirmed* violation stops the later tiers."""
        for cand in candidates:
            if id(cand) in done_cands:
                continue
            done_cands.add(id(cand))
            cfgname = cand.config
            replay_bin = bins[cfgname]['replay']
            env = dict(env0)
            if cand.engine == 'sweep':
                os.makedirs(fdir, exist_ok=True)
                dst = os.path.join(fdir, '%s.%s.sweep' % (prop, cfgname))
                shutil.copy(cand.path, dst)
                violations.append((cand, 'sweep', dst))
                continue
            # a per-case alarm is a budget, not an oracle: only a property that
            # claims termination (C14) turns a reproducible timeout into a
            # violation; everywhere else it is recorded as inconclusive
            why = ''
            try:
                why = open(cand.path + '.why').read()
            except OSError:
                pass
            timed_out = 'per-case timeout' in why
            if timed_out and not spec.get('timeout_is_violation'):
                inconclusive.append('a case hit the per-case time limit in %s '
                                    '(%s): inconclusive, not a violation: %s'
                                    % (cand.config, cand.engine, cand.path))
                continue
            bad, out = replay_once(replay_bin, env, cand.path)
            if not bad:
                inconclusive.append('candidate from %s did not reproduce in a '
                                    'fresh process: %s' % (cand.engine, cand.path))
                continue
            site = failure_site(out)
            if site == 'timeout' and not spec.get('timeout_is_violation'):
                inconclusive.append('replay of a candidate from %s exceeded the '
                                    'time limit: inconclusive: %s'
                                    % (cand.engine, cand.path))
                continue
            if site in seen_sites and not args.keep_going:
                continue       # same site already reported: skip before minimising
            path = cand.path
            if cand.engine in ('rapidcheck-crash', 'libfuzzer', 'regression-crash',
                               'dump-replay-crash'):
                path = minimise(replay_bin, env, cand.path, site)
            n_ok = 0
            for _ in range(3):
                bad, out = replay_once(replay_bin, env, path)
                if bad:
                    n_ok += 1
            need = spec.get('confirm', 3)
            if n_ok < need:
                inconclusive.append('candidate reproduced %d/3 times only: %s' %
                                    (n_ok, path))
                continue
            seen_sites.add(site)
            os.makedirs(fdir, exist_ok=True)
            data = open(path, 'rb').read()
            name = '%s-%s-%s.case' % (prop, cfgname,
                                      hashlib.sha1(data).hexdigest()[:10])
            dst = os.path.join(fdir, name)
            with open(dst, 'wb') as f:
                f.write(data)
            with open(dst + '.txt', 'w') as f:
                f.write('engine=%s config=%s site=%s\n' % (cand.engine, cfgname, site))
                f.write(out)
            violations.append((cand, site, dst))

    def stop_now():
        """true when a confirmed (non-sweep) violation exists and the caller did
        not ask to keep going"""
        process_candidates()
        return (not args.keep_going) and any(v[1] != 'sweep' for v in violations)

    # ------------------------------------------------- regression + sweep
    corpus = sorted(glob.glob(os.path.join(VERIF, 'corpus', prop, '*.case')))
    known_witness = set(os.path.join(VERIF, k['witness']) for k in known
                        if k.get('status') == 'known' and k.get('witness'))
    corpus = [c for c in corpus if c not in known_witness]
    listfile = os.path.join(work, 'corpus.list')
    with open(listfile, 'w') as f:
        f.write('\n'.join(corpus) + '\n')
    cmds = []
    for c in configs:
        env = dict(env0)
        st = os.path.join(work, 'reg-%s.json' % c)
        env['VF_STATS'] = st
        env['VF_CRASH'] = os.path.join(work, 'reg-%s.crash' % c)
        statfiles.append(st)
        argv_ = [bins[c]['replay'], '--quiet', '--list', listfile]
        if spec.get('sweep', True) and not os.environ.get('VF_NO_SWEEP'):
            argv_.append('--sweep')
        cmds.append((argv_, env, os.path.join(work, 'reg-%s.log' % c),
                     tspec.get('reg_timeout', 600)))
    rcs = run_workers(cmds)
    for c, rc_, cmd in zip(configs, rcs, cmds):
        out = open(cmd[2], 'rb').read().decode('utf-8', 'replace')
        for m in re.finditer(r'^(\S+:\d+:\d+): runtime error: (.*)$', out, re.M):
            ubsan.add(m.group(1))
        if rc_ == 0:
            continue
        if rc_ is None:
            inconclusive.append('regression tier timed out in config %s' % c)
            continue
        # find failing files
        fails = re.findall(r'^FAIL (\S+) site=', out, re.M)
        crash = os.path.join(work, 'reg-%s.crash' % c)
        if fails:
            for fpath in fails:
                if fpath == '<sweep>':
                    sw = os.path.join(work, 'sweep-%s.txt' % c)
                    with open(sw, 'w') as f:
                        f.write(out)
                    candidates.append(Candidate(sw, c, out, 'sweep'))
                else:
                    candidates.append(Candidate(fpath, c, out, 'regression'))
        elif os.path.exists(crash):
            candidates.append(Candidate(crash, c, out[-3000:], 'regression-crash'))
        else:
            # died inside the deterministic sweep (no in-flight case)
            sw = os.path.join(work, 'sweep-%s.txt' % c)
            with open(sw, 'w') as f:
                f.write(out)
            candidates.append(Candidate(sw, c, out[-3000:], 'sweep'))

    # ----------------------------------- named partitioned sweeps (thorough)
    for sw in tspec.get('extra_sweeps', []):
        if stop_now():
            break
        cmds = []
        meta = []
        for c in sw.get('configs', configs[:1]):
            if c not in bins:
                continue
            for i in range(sw.get('parts', NCPU)):
                tag = 'sw-%s-%s-%d' % (sw['name'], c, i)
                env = dict(env0)
                st = os.path.join(work, tag + '.json')
                env.update(VF_STATS=st, VF_SWEEP_NAME=sw['name'],
                           VF_SWEEP_PART=str(i),
                           VF_SWEEP_PARTS=str(sw.get('parts', NCPU)),
                           VF_SETMAX='4096')
                statfiles.append(st)
                cmds.append(([bins[c]['replay'], '--quiet', '--sweep'], env,
                             os.path.join(work, tag + '.log'),
                             sw.get('timeout', 3600)))
                meta.append((c, tag))
        tsw = time.time()
        rcs = []
        for k in range(0, len(cmds), NCPU):
            rcs += run_workers(cmds[k:k + NCPU])
        log('[%s] sweep %s: %d processes, %.1fs' % (prop, sw['name'], len(cmds),
                                                    time.time() - tsw))
        for (c, tag), rc_, cmd in zip(meta, rcs, cmds):
            if rc_ == 0:
                continue
            out = open(cmd[2], 'rb').read().decode('utf-8', 'replace')
            if rc_ is None:
                inconclusive.append('sweep %s hit the wall-clock limit' % tag)
                continue
            swf = os.path.join(work, tag + '.txt')
            with open(swf, 'w') as f:
                f.write(out)
            candidates.append(Candidate(swf, c, out[-3000:], 'sweep'))

    # --------------------------------------------------------- rapidcheck
    rc_configs = [c for c in configs if 'rc' in bins[c]]
    # configurations without a C++ driver (MSan) replay the cases generated by
    # the rapidcheck workers of `dump_from`
    dump_configs = [c for c in configs if 'rc' not in bins[c]]
    dump_from = tspec.get('dump_from', rc_configs[0] if rc_configs else None)
    dumps = []
    if rc_configs and not stop_now():
        shares = tspec.get('shares') or {c: 1 for c in rc_configs}
        total_share = sum(shares.get(c, 1) for c in rc_configs)
        nworkers = tspec.get('workers', NCPU)
        cmds = []
        meta = []
        wi = 0
        for c in rc_configs:
            nw = max(1, int(round(nworkers * shares.get(c, 1) / total_share)))
            cases = int(tspec['cases'] * scale * shares.get(c, 1) / total_share)
            per = max(1, cases // nw)
            for i in range(nw):
                env = dict(env0)
                tag = 'rc-%s-%d' % (c, i)
                st = os.path.join(work, tag + '.json')
                env['VF_STATS'] = st
                env['VF_FAIL'] = os.path.join(work, tag + '.fail')
                env['VF_CRASH'] = os.path.join(work, tag + '.crash')
                if spec.get('case_timeout'):
                    env['VF_CASE_TIMEOUT'] = str(spec['case_timeout'])
                if 'maxlen' in tspec:
                    env['VF_MAXLEN'] = str(tspec['maxlen'])
                env['VF_SETMAX'] = str(tspec.get('setmax', 1 << 21))
                if dump_configs and c == dump_from:
                    env['VF_DUMP_CASES'] = os.path.join(work, tag + '.dump')
                    env['VF_DUMP_EVERY'] = str(tspec.get('dump_every', 1))
                    env['VF_DUMP_MAX'] = str(tspec.get('dump_max', 20000))
                    dumps.append(env['VF_DUMP_CASES'])
                s = derive_seed(args.seed, wi, c)
                env['RC_PARAMS'] = ('seed=%d max_success=%d max_size=100 '
                                    'max_discard_ratio=100' % (s, per))
                statfiles.append(st)
                cmds.append(([bins[c]['rc']], env,
                             os.path.join(work, tag + '.log'),
                             tspec.get('rc_timeout', 1800)))
                meta.append((c, tag, s))
                wi += 1
        trc = time.time()
        rcs = run_workers(cmds)
        log('[%s] rapidcheck: %d workers, %.1fs' % (prop, len(cmds),
                                                    time.time() - trc))
        for (c, tag, s), rc_, cmd in zip(meta, rcs, cmds):
            out = open(cmd[2], 'rb').read().decode('utf-8', 'replace')
            for m in re.finditer(r'^(\S+:\d+:\d+): runtime error: (.*)$', out, re.M):
                ubsan.add(m.group(1))
            if rc_ == 0:
                continue
            fail = os.path.join(work, tag + '.fail')
            crash = os.path.join(work, tag + '.crash')
            if rc_ is None:
                inconclusive.append('rapidcheck worker %s hit the wall-clock '
                                    'limit' % tag)
                continue
            if os.path.exists(fail):
                candidates.append(Candidate(fail, c, out[-2000:], 'rapidcheck'))
            elif os.path.exists(crash):
                candidates.append(Candidate(crash, c, out[-4000:],
                                            'rapidcheck-crash'))
            else:
                infra.append('worker %s died without leaving a case (rc=%s): %s'
                             % (tag, rc_, out[-600:].replace('\n', ' | ')))

    # -------------------------------- replay generated cases (MSan etc.)
    if dump_configs and dumps and not stop_now():
        cmds = []
        meta = []
        for c in dump_configs:
            for i, d in enumerate(dumps):
                if not os.path.exists(d):
                    continue
                tag = 'dr-%s-%d' % (c, i)
                env = dict(env0)
                st = os.path.join(work, tag + '.json')
                env['VF_STATS'] = st
                env['VF_FAIL'] = os.path.join(work, tag + '.fail')
                env['VF_CRASH'] = os.path.join(work, tag + '.crash')
                if spec.get('case_timeout'):
                    env['VF_CASE_TIMEOUT'] = str(spec['case_timeout'] * 3)
                statfiles.append(st)
                cmds.append(([bins[c]['replay'], '--quiet', '--dump', d], env,
                             os.path.join(work, tag + '.log'),
                             tspec.get('rc_timeout', 1800)))
                meta.append((c, tag))
        tdr = time.time()
        rcs = []
        for k in range(0, len(cmds), NCPU):
            rcs += run_workers(cmds[k:k + NCPU])
        log('[%s] dump replay (%s): %d processes, %.1fs' %
            (prop, ','.join(dump_configs), len(cmds), time.time() - tdr))
        for (c, tag), rc_, cmd in zip(meta, rcs, cmds):
            out = open(cmd[2], 'rb').read().decode('utf-8', 'replace')
            if rc_ == 0:
                continue
            fail = os.path.join(work, tag + '.fail')
            crash = os.path.join(work, tag + '.crash')
            if rc_ is None:
                inconclusive.append('dump replay %s hit the wall-clock limit' % tag)
            elif os.path.exists(fail):
                candidates.append(Candidate(fail, c, out[-3000:], 'dump-replay'))
            elif os.path.exists(crash):
                candidates.append(Candidate(crash, c, out[-4000:],
                                            'dump-replay-crash'))
            else:
                infra.append('%s died without leaving a case (rc=%s): %s'
                             % (tag, rc_, out[-600:].replace('\n', ' | ')))

    # ----------------------------------------------------------- libFuzzer
    if use_fuzz and not stop_now():
        nworkers = tspec.get('fuzz_workers', NCPU)
        secs = max(5, int(tspec['fuzz_s'] * scale))  # 0 would mean unlimited
        cmds = []
        meta = []
        for i in range(nworkers):
            tag = 'fz-%d' % i
            cdir = os.path.join(work, tag + '.corpus')
            adir = os.path.join(work, tag + '.art')
            os.makedirs(cdir)
            os.makedirs(adir)
            if i % 2 == 0:       # half the workers start from the seeds
                for j, cfile in enumerate(corpus):
                    shutil.copy(cfile, os.path.join(cdir, 'seed%04d' % j))
            env = dict(env0)
            st = os.path.join(work, tag + '.json')
            env['VF_STATS'] = st
            env['VF_CRASH'] = os.path.join(work, tag + '.crash')
            env['VF_NO_SIGNALS'] = '1'
            statfiles.append(st)
            s = derive_seed(args.seed, i, 'fuzz')
            maxlen = tspec.get('fuzz_maxlen', tspec.get('maxlen', spec.get('maxlen', 256)))
            argv_ = [bins['fuzz']['fuzz'], cdir, '-seed=%d' % s,
                     '-max_total_time=%d' % secs, '-max_len=%d' % maxlen,
                     '-artifact_prefix=%s/' % adir, '-print_final_stats=1',
                     '-rss_limit_mb=6000', '-timeout=%d' % spec.get('case_timeout', 30),
                     '-verbosity=0', '-use_value_profile=1']
            cmds.append((argv_, env, os.path.join(work, tag + '.log'), secs + 300))
            meta.append((tag, adir))
        tfz = time.time()
        rcs = run_workers(cmds)
        log('[%s] libFuzzer: %d workers, %.1fs' % (prop, len(cmds),
                                                   time.time() - tfz))
        for (tag, adir), rc_, cmd in zip(meta, rcs, cmds):
            out = open(cmd[2], 'rb').read().decode('utf-8', 'replace')
            arts = sorted(glob.glob(os.path.join(adir, '*')))
            crashes = [a for a in arts if os.path.basename(a).startswith(('crash-', 'leak-'))]
            noise = [a for a in arts if a not in crashes]
            for a in noise:
                inconclusive.append('libFuzzer %s: %s (load noise, not a '
                                    'violation)' % (tag, os.path.basename(a)))
            for a in crashes:
                candidates.append(Candidate(a, 'fuzz', out[-3000:], 'libfuzzer'))
            if rc_ is None:
                inconclusive.append('libFuzzer worker %s killed at wall-clock '
                                    'limit' % tag)

    process_candidates()

    # ---------------------------------------------------- known findings
    known_lines = []
    for k in known:
        if k.get('status') != 'known':
            continue
        wit = os.path.join(VERIF, k['witness'])
        cfgname = k.get('config', 'asan')
        if cfgname not in bins:
            cfgname = configs[0]
        env = dict(env0)
        env['VF_KNOWN'] = ''
        bad, out = replay_once(bins[cfgname]['replay'], env, wit)
        if bad:
            known_lines.append('KNOWN-FINDING: property=%s %s' % (prop, k['what']))
        else:
            log('[%s] note: known finding %s no longer reproduces from its '
                'witness' % (prop, k['id']))

    # ---------------------------------------------------------- evidence
    agg = dict(cases=0, evals=0, nontrivial_hits=0, discards=0)
    classes = {}
    excluded = {}
    samples = []
    saturated = False
    for st in statfiles:
        if not os.path.exists(st):
            continue
        try:
            d = json.load(open(st))
        except ValueError:
            continue
        for k_ in agg:
            agg[k_] += d.get(k_, 0)
        eng = '%s/%s' % (d.get('engine'), d.get('config'))
        engines[eng] = engines.get(eng, 0) + d.get('evals', 0)
        for k_, v in d.get('classes', {}).items():
            classes[k_] = classes.get(k_, 0) + v
        for k_, v in d.get('excluded_known', {}).items():
            excluded[k_] = excluded.get(k_, 0) + v
        saturated = saturated or bool(d.get('saturated'))
        for s in d.get('samples', []):
            if len(samples) < 12 and s not in samples:
                samples.append(s)
    distinct = union_count([st + '.h64' for st in statfiles])
    starved = [c for c in spec.get('required_classes', [])
               if classes.get(c, 0) == 0]
    wall = time.time() - t0
    ev = {
        'property_id': prop,
        'tier': tier,
        'seed': args.seed,
        'level': spec.get('level', 'exploration'),
        'coverage': {
            'evaluations': agg['evals'],
            'distinct_nontrivial': distinct,
            'distinct_is_lower_bound': saturated,
            'rule': spec['rule'],
            'samples': samples,
            'cases': agg['cases'],
            'engines': engines,
            'classes': dict(sorted(classes.items())),
            'starved_classes': starved,
            'excluded_known': excluded,
            'discarded': agg['discards'],
            'configs': configs,
            'skipped_configs': skipped_configs,
            'ubsan_report_sites': sorted(ubsan)[:40],
            'inconclusive': inconclusive[:40],
            'build_s': round(build_s, 1),
            'repo': repo_dir(),
        },
        'assumptions': spec.get('assumptions', []),
        'wall_s': round(wall, 1),
        'violations': len(violations),
    }
    if not (os.environ.get('VERIF_REPO') and not os.environ.get('VF_WRITE_EVIDENCE')):
        os.makedirs(os.path.join(VERIF, 'evidence'), exist_ok=True)
        evp = os.path.join(VERIF, 'evidence', '%s.json' % prop)
        with open(evp + '.tmp', 'w') as f:
            json.dump(ev, f, indent=1)
        os.replace(evp + '.tmp', evp)

    log('[%s] tier=%s seed=%d evaluations=%d distinct_nontrivial=%d wall=%.1fs'
        % (prop, tier, args.seed, agg['evals'], distinct, wall))
    if starved:
        log('[%s] generator health: starved classes: %s' % (prop, ', '.join(starved)))
    for line in inconclusive[:10]:
        log('[%s] inconclusive: %s' % (prop, line))
    for line in known_lines:
        log(line)
    if violations:
        for cand, site, dst in violations:
            log('[%s] violation via %s in config %s at %s' %
                (prop, cand.engine, cand.config, site))
            try:
                txt = open(dst + '.txt').read() if os.path.exists(dst + '.txt') \
                    else cand.why
            except OSError:
                txt = cand.why
            log(txt[-1500:])
            log('VIOLATION property=%s replay=%s' % (prop, dst))
        return 1
    if infra:
        # not a violation we can replay, but not a clean run either
        for line in infra[:10]:
            log('[%s] infrastructure failure: %s' % (prop, line))
        return 2
    return 0
