"""Shared strings for the property definitions."""
COMMON_ASSUME = [
    'gcc 12 / clang 14 on x86-64 little-endian Linux; other targets '
    '(big-endian hosts, NEON) are not exercised',
    'rapidcheck / libFuzzer generate the cases; absence of a failure is not a '
    'proof',
]
